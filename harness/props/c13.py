"""C13 -- the light directory stays self-consistent over any discovery/expiry history.

The REAL classes are driven: bardolph.controller.light_set.LightSet (discover,
_garbage_collect, refresh, every public getter), bardolph.lib.sorted_list.SortedList,
bardolph.vm.vm_discover.VmDiscover, with a fake LightApi defined here (population
snapshots of real bardolph.controller.light.Light objects, optional LightException),
a virtual clock in place of `time` inside bardolph.controller.light, and the
`light_gc_time` setting.

Ties checked on every run (differences are classified by fixed rules into signatures):
  E   bounded-exhaustive histories (every history of <= k symbols over the small alphabets;
      identical real states are expanded once): after EVERY step
        O  oracle: all public getters vs the abstract directory of Lights/DirectorySpec.v
        M  correspondence: the whole state + getters vs the model Lights/Directory.v
        I  the executable invariant dir_invb evaluated (in Coq) on every distinct state of
           the real LightSet
  R   random long histories (<= 12 steps, larger and nastier alphabets): O, M, I as above,
      plus refresh() == discover() ; _garbage_collect()
  S   SortedList first/last/next/prev/has/add/remove on random lists and probes vs
      specification and model; model positions vs CPython's bisect
  T   iterate first/next (last/prev) on the real SortedList while values are removed
      between the steps: judged by the specification (trace_okb), compared with the model
  W   VmDiscover disc/discm/dnext/dnextm walks over the real LightSet while discoveries and
      expiries happen between the steps vs specification (nearest remaining name or NULL,
      never an exception) and model
Digests (text as a base-256 number mod the prime 2^54-33) are compared inside Coq; texts are printed
only for the cases that differ.
"""
import itertools
import logging
import types

import common
from common import coq_str, coq_list, coq_z, coq_bool

MODEL_TARGETS = ['Run/C13Model.vo']
EXTRA_TARGETS = ['Run/C13Spec.vo', 'Run/C13Model.vo']
IMP_SPEC = 'From Bardolph Require Import Lights.SortedList Lights.Directory Lights.DirectorySpec Run.C13Spec.'
IMP_MODEL = IMP_SPEC + '\nFrom Bardolph Require Import Run.C13Model.'
HM = (1 << 54) - 33


# ---------------------------------------------------------------------------
# text formats shared with Run/Show.v, Run/C13Spec.v, Run/C13Model.v

def digest(text):
    return int.from_bytes(text.encode('latin-1'), 'big') % HM


def show_str(s):
    out = []
    for ch in s:
        n = ord(ch)
        if n < 32 or n >= 127 or n in (92, 59, 39):
            out.append('\\x%02x' % n)
        else:
            out.append(ch)
    return "'" + ''.join(out) + "'"


def show_list(f, l):
    return '[' + ''.join(f(x) + ';' for x in l) + ']'


def show_opt(f, o):
    return 'None' if o is None else 'Some(' + f(o) + ')'


def show_names(l):
    return show_list(show_str, l)


def show_light(v):
    return show_str(v[0]) + ',' + show_str(v[1]) + ',' + str(v[2])


def pub_text(A, names, count, light_of, gnames, glights, pnames, plights, ok, fail):
    return ('N' + show_names(names) + '#' + str(count)
            + 'L' + show_list(lambda n: show_opt(show_light, light_of(n)), A['names'])
            + 'G' + show_names(gnames) + show_list(lambda g: show_opt(show_names, glights(g)), A['groups'])
            + 'P' + show_names(pnames) + show_list(lambda g: show_opt(show_names, plights(g)), A['locs'])
            + 'C' + str(ok) + ',' + str(fail))


def show_table(td):
    return show_list(lambda e: show_str(e[0]) + '=' + show_names(e[1]), sorted(td.items()))


# byte encoding of the same observations for the digests (h_str, h_int, h_list, h_opt of Run/C13Spec.v)
def e_str(x):
    return x.encode('latin-1') + b'\xff'


def e_int(n):
    return n.to_bytes(8, 'big')


def e_list(f, l):
    return b''.join(f(x) for x in l) + b'\xfe'


def e_opt(f, o):
    return b'\xfd' if o is None else b'\xfc' + f(o)


def e_names(l):
    return e_list(e_str, l)


def e_light(v):
    return e_str(v[0]) + e_str(v[1]) + e_int(v[2])


def pub_enc(A, names, count, light_of, gnames, glights, pnames, plights, ok, fail):
    return (e_names(names) + e_int(count)
            + e_list(lambda n: e_opt(e_light, light_of(n)), A['names'])
            + e_names(gnames) + e_list(lambda g: e_opt(e_names, glights(g)), A['groups'])
            + e_names(pnames) + e_list(lambda g: e_opt(e_names, plights(g)), A['locs'])
            + e_int(ok) + e_int(fail))


def e_table(td):
    return e_list(lambda e: e_str(e[0]) + e_names(e[1]), sorted(td.items()))


def digest_bytes(b):
    return int.from_bytes(b, 'big') % HM


# Coq terms
def coq_report(r):
    return '(%s, (%s, %s))' % (coq_str(r[0]), coq_str(r[1]), coq_str(r[2]))


def coq_sym(y):
    if y[0] == 'D':
        return '(SDisc %s)' % coq_list([coq_report(r) for r in y[1]])
    if y[0] == 'F':
        return 'SFail'
    if y[0] == 'T':
        return '(STick %s)' % coq_z(y[1])
    if y[0] == 'E':
        return '(SExp %s)' % coq_z(y[1])
    raise ValueError(y)


def coq_syms(l):
    return coq_list([coq_sym(y) for y in l])


def coq_strs(l):
    return coq_list([coq_str(s) for s in l])


def coq_alpha(A):
    return '(mkAlpha %s %s %s)' % (coq_strs(A['names']), coq_strs(A['groups']), coq_strs(A['locs']))


def chunks(l, n):
    return [l[i:i + n] for i in range(0, len(l), n)]


def coq_eval(tag, imports, bodies):
    """Run files of `Eval vm_compute in (...)` commands; returns per file the list of strings."""
    res = common.run_cases(tag, imports, bodies)
    out = []
    for ok, strs, log in res:
        if not ok:
            raise RuntimeError('coq evaluation %s failed: %s' % (tag, log[-1500:]))
        out.append(strs)
    return out


def parse_ids(s):
    return [int(x) for x in s.strip('[]').split(';') if x]


# ---------------------------------------------------------------------------
# the real classes under a virtual clock

class Env:
    """Injection set-up, fake LightApi, virtual clock."""

    def __init__(self):
        from bardolph.controller import i_controller, light as light_mod
        from bardolph.lib import injection, settings
        self.i_controller = i_controller
        self.light_mod = light_mod
        injection.configure()
        settings.using({'log_level': logging.CRITICAL, 'log_to_console': True, 'single_light_discover': True,
                        'use_fakes': True, 'sleep_time': 0.0, 'light_gc_time': 10}).configure()
        logging.disable(logging.CRITICAL)
        self.settings_mod = settings
        self.clock = 0
        self.snapshot = []
        self.fail = False
        env = self

        class FakeApi(i_controller.LightApi):
            def get_lights(self):
                if env.fail:
                    raise i_controller.LightException('simulated discovery failure')
                return [light_mod.Light(n, g, l) for (n, g, l) in env.snapshot]

            def set_color_all_lights(self, color, duration):
                pass

            def set_power_all_lights(self, power_level, duration):
                pass

        self.api = FakeApi()
        injection.bind_instance(self.api).to(i_controller.LightApi)
        # Light._birth and Light.get_age() read `time.time()` through the module global `time`
        self._saved_time = light_mod.time
        light_mod.time = types.SimpleNamespace(time=lambda: float(env.clock))

    def close(self):
        self.light_mod.time = self._saved_time
        logging.disable(logging.NOTSET)

    def new_set(self):
        from bardolph.controller.light_set import LightSet
        return LightSet()

    def set_gc(self, max_age):
        self.settings_mod.Settings._the_config['light_gc_time'] = max_age

    def bind_set(self, ls):
        from bardolph.lib import injection
        injection.bind_instance(ls).to(self.i_controller.LightSet)

    def apply(self, ls, y):
        """One symbol on the real LightSet."""
        if y[0] == 'D':
            self.snapshot, self.fail = list(y[1]), False
            r = ls.discover()
            if r is not True:
                raise AssertionError('discover() returned %r on a successful discovery' % (r,))
        elif y[0] == 'F':
            self.fail = True
            r = ls.discover()
            if r is not False:
                raise AssertionError('discover() returned %r although get_lights() raised' % (r,))
        elif y[0] == 'T':
            self.clock += y[1]
        elif y[0] == 'E':
            self.set_gc(y[1])
            ls._garbage_collect()
        else:
            raise ValueError(y)


def clone_set(env, ls):
    from bardolph.lib.sorted_list import SortedList
    c = env.new_set()
    c._lights = dict(ls._lights)
    names = SortedList()
    names.extend(ls._light_names)
    c._light_names = names
    for attr in ('_groups', '_locations'):
        d = {}
        for k, v in getattr(ls, attr).items():
            s = SortedList()
            s.extend(v)
            d[k] = s
        setattr(c, attr, d)
    c._num_successful_discovers = ls._num_successful_discovers
    c._num_failed_discovers = ls._num_failed_discovers
    return c


def birth_of(light):
    b = light._birth
    if b != int(b):
        raise AssertionError('non-integral birth time %r' % (b,))
    return int(b)


def raw_key(env, ls):
    """The complete private state (dict orders included) plus the clock."""
    return (tuple((k, v.get_name(), v.get_group(), v.get_location(), v._birth) for k, v in ls._lights.items()),
            tuple(ls._light_names),
            tuple((k, tuple(v)) for k, v in ls._groups.items()),
            tuple((k, tuple(v)) for k, v in ls._locations.items()),
            ls._num_successful_discovers, ls._num_failed_discovers, env.clock)


def real_obs(env, A, ls):
    """All public getters (and the private tables) of the real LightSet, as
    (full text, pub text, full bytes, pub bytes)."""
    def light_of(n):
        l = ls.get_light(n)
        if l is None:
            return None
        age = l.get_age()
        birth = env.clock - age
        if birth != int(birth):
            raise AssertionError('non-integral age %r' % (age,))
        return (l.get_group(), l.get_location(), int(birth))

    def opt_list(x):
        return None if x is None else list(x)
    lights = {n: light_of(n) for n in A['names']}
    groups = {g: opt_list(ls.get_group_lights(g)) for g in A['groups']}
    locs = {g: opt_list(ls.get_location_lights(g)) for g in A['locs']}
    args = (A, list(ls.get_light_names()), ls.get_light_count(), lights.get,
            list(ls.get_group_names()), groups.get, list(ls.get_location_names()), locs.get,
            ls.get_successful_discovers(), ls.get_failed_discovers())
    pub_t, pub_b = pub_text(*args), pub_enc(*args)
    ordered = [(l.get_name(), (l.get_group(), l.get_location(), birth_of(l))) for l in ls.get_lights()]
    names = list(ls._light_names)
    gt = {k: list(v) for k, v in ls._groups.items()}
    lt = {k: list(v) for k, v in ls._locations.items()}
    ok, fail = ls._num_successful_discovers, ls._num_failed_discovers
    st_t = ('L' + show_list(lambda e: show_str(e[0]) + ',' + show_light(e[1]), ordered)
            + 'N' + show_names(names) + 'G' + show_table(gt) + 'P' + show_table(lt) + 'C' + str(ok) + ',' + str(fail))
    st_b = (e_list(lambda e: e_str(e[0]) + e_light(e[1]), ordered) + e_names(names) + e_table(gt) + e_table(lt)
            + e_int(ok) + e_int(fail))
    return (st_t + '/' + pub_t, pub_t, st_b + pub_b, pub_b)


def real_state_text(ls):
    lights = ls.get_lights()
    return ('L' + show_list(lambda l: show_str(l.get_name()) + ',' + show_light((l.get_group(), l.get_location(), birth_of(l))), lights)
            + 'N' + show_names(list(ls._light_names))
            + 'G' + show_table(ls._groups)
            + 'P' + show_table(ls._locations)
            + 'C' + str(ls._num_successful_discovers) + ',' + str(ls._num_failed_discovers))


def coq_dir(ls):
    lights = coq_list(['(%s, mkLight %s %s %s)' % (coq_str(k), coq_str(v.get_group()), coq_str(v.get_location()), coq_z(birth_of(v)))
                       for k, v in ls._lights.items()])
    def table(td):
        return coq_list(['(%s, %s)' % (coq_str(k), coq_strs(list(v))) for k, v in td.items()])
    return '(mkDir %s %s %s %s %s %s)' % (lights, coq_strs(list(ls._light_names)), table(ls._groups), table(ls._locations),
                                         coq_z(ls._num_successful_discovers), coq_z(ls._num_failed_discovers))


def state_key(ls):
    """State as far as the invariant looks at it."""
    return coq_dir(ls)


def python_sanity(ls):
    """Things the Coq state type cannot even express."""
    for k, v in ls._lights.items():
        if v is None or v.get_name() != k:
            return 'light stored under key %r reports name %r' % (k, None if v is None else v.get_name())
    return None


# ---------------------------------------------------------------------------
# alphabets, symbols, generators

SMALL = {'names': ['a', 'b', 'c'], 'groups': ['g', 'h'], 'locs': ['l', 'm']}
TINY = {'names': ['a', 'b'], 'groups': ['g', 'h'], 'locs': ['l', 'm']}
# code-point order traps: upper < lower, prefix < extension, digits, space, punctuation
WIDE = {'names': ['a', 'B', 'ab', 'b', 'a b', 'lamp-10', 'lamp-2', "it's", 'x;y'],
        'groups': ['g', 'G', 'h', 'x', 'g 2'],
        'locs': ['l', 'x', 'Home', 'home']}


def snapshots(A, both_orders=False):
    """Every population over the alphabet: each name absent or reporting one (group, location)."""
    per = [None] + [(g, l) for g in A['groups'] for l in A['locs']]
    out = []
    for choice in itertools.product(per, repeat=len(A['names'])):
        snap = [(n, c[0], c[1]) for n, c in zip(A['names'], choice) if c is not None]
        out.append(snap)
        if both_orders and len(snap) > 1:
            out.append(list(reversed(snap)))
    return out


def symtab_for(A, both_orders=False):
    return [('D', s) for s in snapshots(A, both_orders)] + [('F',), ('T', 10), ('E', 10), ('E', 5)]


def random_snapshot(rng, A, prev):
    """A population: mostly the previous one with lights vanishing, appearing, moving, renamed;
    sometimes two devices with one label."""
    k = rng.random()
    if prev and k < 0.6:
        snap = []
        for (n, g, l) in prev:
            r = rng.random()
            if r < 0.15:
                continue                                             # vanished
            if r < 0.30:
                g = rng.choice(A['groups'])                          # moved to another group
            elif r < 0.40:
                l = rng.choice(A['locs'])
            elif r < 0.48:
                n = rng.choice(A['names'])                           # renamed
            snap.append((n, g, l))
        if rng.random() < 0.4:
            snap.append((rng.choice(A['names']), rng.choice(A['groups']), rng.choice(A['locs'])))
        rng.shuffle(snap)
        return snap
    n = rng.randint(0, min(6, len(A['names']) + 1))
    return [(rng.choice(A['names']), rng.choice(A['groups']), rng.choice(A['locs'])) for _ in range(n)]


def random_history(rng, A, max_len):
    n = rng.randint(1, max_len)
    hist = []
    prev = []
    for _ in range(n):
        r = rng.random()
        if r < 0.45:
            prev = random_snapshot(rng, A, prev)
            hist.append(('D', prev))
        elif r < 0.55:
            hist.append(('F',))
        elif r < 0.80:
            hist.append(('T', rng.choice([0, 1, 5, 9, 10, 11, 20, 600, 1200, 1201])))
        else:
            hist.append(('E', rng.choice([0, 1, 5, 10, 11, 20, 1200])))
    return hist


# ---------------------------------------------------------------------------
# classification

SECTION = {'N': 'light-names', 'L': 'light-lookup', 'G': 'group-listing', 'P': 'location-listing', 'C': 'discover-counters'}


def first_diff_section(a, b):
    """Section letter (N, L, G, P, C) of the first difference between two pub texts."""
    sec = 'N'
    depth = 0
    for i in range(min(len(a), len(b))):
        ch = a[i]
        if a[i] != b[i]:
            return sec
        if ch == "'":
            depth ^= 1
        elif not depth and ch in 'LGPC' and a[i - 1] in ']0123456789':
            sec = ch
    return sec


def last_kind(hist):
    for y in reversed(hist):
        if y[0] != 'T':
            return {'D': 'discover', 'F': 'failed-discover', 'E': 'expire'}[y[0]]
    return 'start'


def describe(hist):
    parts = []
    for y in hist:
        if y[0] == 'D':
            parts.append('discover(%s)' % ', '.join('%s:%s/%s' % r for r in y[1]))
        elif y[0] == 'F':
            parts.append('discover(fails)')
        elif y[0] == 'T':
            parts.append('+%ds' % y[1])
        else:
            parts.append('expire(max_age=%d)' % y[1])
    return ' ; '.join(parts)


def report_oracle_diff(ctx, A, hist, step_idx, real, want):
    sec = first_diff_section(real, want)
    upto = hist[:step_idx + 1]
    sig = 'C13/%s-after-%s' % (SECTION[sec], last_kind(upto))
    ctx.counterexample(sig, 'after %s the real LightSet answers %s but the directory determined by the history is %s'
                       % (describe(upto), real, want),
                       {'kind': 'history', 'alphabet': A, 'history': upto, 'real': real, 'specification': want})


# ---------------------------------------------------------------------------
# running one history on the real LightSet

def run_real(env, A, hist, states=None, start=None):
    """Observations after every symbol: list of (full text, pub text, full bytes, pub bytes); an
    exception escaping the implementation ends the list with '!ExcName: msg' texts."""
    if start is None:
        ls = env.new_set()
        env.clock = 0
    else:
        ls, env.clock = start
    out = []
    for y in hist:
        try:
            env.apply(ls, y)
            o = real_obs(env, A, ls)
        except Exception as ex:  # the property allows no exception here
            t = '!%s: %s' % (type(ex).__name__, ex)
            out.append((t, t, e_str(t), e_str(t)))
            break
        out.append(o)
        if states is not None:
            bad = python_sanity(ls)
            if bad:
                states.setdefault('!' + bad, (None, list(hist[:len(out)])))
            else:
                states.setdefault(state_key(ls), (None, list(hist[:len(out)])))
    return ls, out


def spec_texts_for(A, hists):
    bodies = ['Definition A := %s.\n' % coq_alpha(A)
              + ''.join('Eval vm_compute in (spec_hist_text A %s).\n' % coq_syms(h) for h in part)
              for part in chunks(hists, 50)]
    res = coq_eval('c13st', IMP_SPEC, bodies)
    return [s for strs in res for s in strs]


def model_texts_for(A, hists):
    bodies = ['Definition A := %s.\n' % coq_alpha(A)
              + ''.join('Eval vm_compute in (model_hist_text A %s).\n' % coq_syms(h) for h in part)
              for part in chunks(hists, 50)]
    res = coq_eval('c13mt', IMP_MODEL, bodies)
    return [s for strs in res for s in strs]


def explain_history(ctx, A, hist, obs_list, do_model):  
    """A history whose digest differed: find the step, classify."""
    want = spec_texts_for(A, [hist])[0].split('@')[:-1]
    explained = False
    for i, (full, pub, _, _) in enumerate(obs_list):
        if pub.startswith('!'):
            ctx.counterexample('C13/step-raises-%s-in-%s' % (pub[1:].split(':')[0], last_kind(hist[:i + 1])),
                               'after %s the real LightSet raises %s' % (describe(hist[:i + 1]), pub[1:]),
                               {'kind': 'history', 'alphabet': A, 'history': hist[:i + 1], 'real': pub})
            return True
        if i < len(want) and pub != want[i]:
            report_oracle_diff(ctx, A, hist, i, pub, want[i])
            explained = True
            break
    if do_model:
        mod = model_texts_for(A, [hist])[0].split('@')[:-1]
        for i, (full, pub, _, _) in enumerate(obs_list):
            if i < len(mod) and full != mod[i]:
                b = {'history': describe(hist[:i + 1]), 'implementation': full, 'model': mod[i]}
                ctx.broken_tie('correspondence', 'LightSet state vs Lights/Directory.v', b)
                if explained:
                    ctx.broken[-1]['explained_by_known'] = True
                break
    return explained


# ---------------------------------------------------------------------------
# E: bounded-exhaustive histories

def exhaustive(ctx, env, A, symtab, depth, tag, states):
    """Every history of <= depth symbols from symtab.  The real LightSet is deterministic in its
    private state and the clock, so a state reached by several histories is expanded once."""
    root = env.new_set()
    env.clock = 0
    seen = {raw_key(env, root)}
    frontier = [(root, 0, [])]
    parents = []                       # (prefix, digest of full texts, digest of pub texts, [full...], [pub...])
    n_nodes = 0
    per_level = []
    cache = {}                         # private state + clock -> its texts (they are functions of it)
    for level in range(depth):
        nxt = []
        for (ls, clock, prefix) in frontier:
            fulls, pubs, fb, pb = [], [], [], []
            for y in symtab:
                c = clone_set(env, ls)
                env.clock = clock
                n_nodes += 1
                try:
                    env.apply(c, y)
                    k = raw_key(env, c)
                    hit = cache.get(k)
                    if hit is None:
                        hit = cache[k] = real_obs(env, A, c)
                        if len(c._lights) >= 2 and (len(c._groups) > 1 or len(c._locations) > 1):
                            ctx.nontriv(('E', hit[0]))
                        bad = python_sanity(c)
                        states.setdefault(('!' + bad) if bad else state_key(c), (A, prefix + [y]))
                except Exception as ex:  # the property allows no exception here
                    t = '!%s: %s' % (type(ex).__name__, ex)
                    fulls.append(t)
                    pubs.append(t)
                    fb.append(e_str(t))
                    pb.append(e_str(t))
                    continue
                fulls.append(hit[0])
                pubs.append(hit[1])
                fb.append(hit[2])
                pb.append(hit[3])
                if k not in seen:
                    seen.add(k)
                    nxt.append((c, env.clock, prefix + [y]))
            parents.append((prefix, digest_bytes(b''.join(fb)), digest_bytes(b''.join(pb)), fulls, pubs))
        per_level.append(len(frontier))
        frontier = nxt
    ctx.count(n_nodes)
    ctx.extra.setdefault('exhaustive_sweeps', []).append({
        'alphabet': A, 'symbols': len(symtab), 'depth': depth,
        'histories_covered': sum(len(symtab) ** k for k in range(1, depth + 1)),
        'distinct_states_expanded_per_level': per_level, 'steps_executed': n_nodes})
    ctx.stage('exhaustive-%s-impl' % tag)
    # Coq: digests of all one-symbol continuations of every expanded state, compared inside Coq
    head = 'Definition A := %s.\nDefinition ST := %s.\n' % (coq_alpha(A), coq_syms(symtab))
    def bodies(fn, which):
        out = []
        per = max(6, min(60, -(-len(parents) // 16)))
        for part in chunks(list(enumerate(parents)), per):
            cases = coq_list(['(%d, (%s, %d))' % (i, coq_syms(p[0]), p[which]) for i, p in part])
            out.append(head + 'Eval vm_compute in (%s A ST %s).\n' % (fn, cases))
        return out
    bad_spec = [i for strs in coq_eval('c13es', IMP_SPEC, bodies('spec_succ_check', 2)) for i in parse_ids(strs[0])]
    ctx.stage('exhaustive-%s-spec' % tag)
    bad_model = []
    if ctx.model_runnable:
        bad_model = [i for strs in coq_eval('c13em', IMP_MODEL, bodies('model_succ_check', 1)) for i in parse_ids(strs[0])]
        ctx.stage('exhaustive-%s-model' % tag)
    for i in sorted(set(bad_spec) | set(bad_model))[:6]:
        prefix, _, _, fulls, pubs = parents[i]
        # texts are printed for a dozen symbols at a time (very long strings overflow coqc's printer)
        def succ_texts(tag, imports, fn):
            body = 'Definition A := %s.\n' % coq_alpha(A) + ''.join(
                'Eval vm_compute in (%s A %s %s).\n' % (fn, coq_syms(part), coq_syms(prefix)) for part in chunks(symtab, 12))
            return [t for s_ in coq_eval(tag, imports, [body])[0] for t in s_.split('@')[:-1]]
        want = succ_texts('c13ex', IMP_SPEC, 'spec_succ_text')
        mod = succ_texts('c13ey', IMP_MODEL, 'model_succ_text') if ctx.model_runnable else None
        n_rep = 0
        for j, y in enumerate(symtab):
            hist = prefix + [y]
            explained = False
            if pubs[j].startswith('!'):
                ctx.counterexample('C13/step-raises-%s-in-%s' % (pubs[j][1:].split(':')[0], last_kind(hist)),
                                   'after %s the real LightSet raises %s' % (describe(hist), pubs[j][1:]),
                                   {'kind': 'history', 'alphabet': A, 'history': hist, 'real': pubs[j]})
                explained = True
            elif pubs[j] != want[j]:
                report_oracle_diff(ctx, A, hist, len(hist) - 1, pubs[j], want[j])
                explained = True
            if mod is not None and fulls[j] != mod[j] and n_rep < 2:
                n_rep += 1
                ctx.broken_tie('correspondence', 'LightSet state vs Lights/Directory.v',
                               {'history': describe(hist), 'implementation': fulls[j], 'model': mod[j]})
                if explained:
                    ctx.broken[-1]['explained_by_known'] = True
    return len(parents)


# ---------------------------------------------------------------------------
# I: the invariant on dumped real states

def invariant_on_states(ctx, states):
    keys = list(states.keys())
    for k in keys:
        if k.startswith('!'):
            A, hist = states[k]
            ctx.counterexample('C13/invariant-light-key-is-not-its-name', 'after %s: %s' % (describe(hist), k[1:]),
                               {'kind': 'history', 'alphabet': A, 'history': hist})
    dirs = [k for k in keys if not k.startswith('!')]
    bodies = []
    for part in chunks(list(enumerate(dirs)), 400):
        bodies.append('Eval vm_compute in (inv_check %s).\n' % coq_list(['(%d, %s)' % (i, d) for i, d in part]))
    bad = [i for strs in coq_eval('c13inv', IMP_SPEC, bodies) for i in parse_ids(strs[0])]
    ctx.count(len(dirs))
    ctx.extra['distinct_real_states_checked_by_dir_invb'] = len(dirs)
    if bad:
        sel = bad[:40]
        whys = coq_eval('c13why', IMP_SPEC, ['Eval vm_compute in (inv_whys %s).\n' % coq_list(['(%d, %s)' % (i, dirs[i]) for i in sel])])[0][0]
        for item in whys.split('@')[:-1]:
            i, why = item.split(':', 1)
            A, hist = states[dirs[int(i)]]
            ctx.counterexample('C13/invariant-%s-after-%s' % (why, last_kind(hist)),
                               'after %s the state of the real LightSet violates the invariant (%s): %s' % (describe(hist), why, dirs[int(i)]),
                               {'kind': 'history', 'alphabet': A, 'history': hist, 'state': dirs[int(i)], 'violated': why})
    ctx.extra['invariant_violations'] = len(bad)


# ---------------------------------------------------------------------------
# R: random long histories

def random_histories(ctx, env, n, states):
    rng = ctx.rng
    by_alpha = {}
    for idx in range(n):
        A = [SMALL, WIDE, WIDE][idx % 3]
        hist = random_history(rng, A, 12)
        by_alpha.setdefault(id(A), (A, []))[1].append(hist)
    n_steps = 0
    kinds = {'D': 0, 'F': 0, 'T': 0, 'E': 0}
    lens = {}
    for A, hists in by_alpha.values():
        recs = []
        local_states = {}
        for hist in hists:
            ls, obs = run_real(env, A, hist, states=local_states)
            for y in hist:
                kinds[y[0]] += 1
            lens[len(hist)] = lens.get(len(hist), 0) + 1
            n_steps += len(obs)
            recs.append((hist, obs))
            pubs = [o[1] for o in obs]
            if len(set(pubs)) > 2:
                ctx.nontriv(('R', describe(hist)))
        for k, v in local_states.items():
            states.setdefault(k, (A, v[1]))
        head = 'Definition A := %s.\n' % coq_alpha(A)
        def bodies(fn, which):
            out = []
            for part in chunks(list(enumerate(recs)), 40 if len(recs) < 2000 else 250):
                cases = coq_list(['(%d, (%s, %d))' % (i, coq_syms(h), digest_bytes(b''.join(o[which] for o in obs))) for i, (h, obs) in part])
                out.append(head + 'Eval vm_compute in (%s A %s).\n' % (fn, cases))
            return out
        bad = set(i for strs in coq_eval('c13rs', IMP_SPEC, bodies('spec_hist_check', 3)) for i in parse_ids(strs[0]))
        if ctx.model_runnable:
            bad |= set(i for strs in coq_eval('c13rm', IMP_MODEL, bodies('model_hist_check', 2)) for i in parse_ids(strs[0]))
        for i in sorted(bad)[:5]:
            explain_history(ctx, A, recs[i][0], recs[i][1], ctx.model_runnable)
        if recs:
            ctx.sample({'history': describe(recs[0][0]), 'final getters': recs[0][1][-1][1]})
    ctx.count(n_steps)
    ctx.extra['random_histories'] = {'histories': n, 'steps': n_steps, 'symbol_kinds': kinds, 'length_distribution': lens}
    # refresh() is discover() followed by _garbage_collect()
    n_ref = 0
    for idx in range(min(n, 400)):
        A = WIDE
        hist = random_history(rng, A, 6)
        ls, obs = run_real(env, A, hist)
        if obs and obs[-1][1].startswith('!'):
            continue
        fail = rng.random() < 0.3
        snap = random_snapshot(rng, A, [])
        env.clock += rng.choice([0, 5, 10, 11, 30])
        gc = rng.choice([5, 10, 20])
        a, b = clone_set(env, ls), clone_set(env, ls)
        clock = env.clock
        try:
            env.snapshot, env.fail = snap, fail
            env.set_gc(gc)
            a.refresh()
            ta = real_state_text(a)
            env.clock = clock
            env.apply(b, ('F',) if fail else ('D', snap))
            env.apply(b, ('E', gc))
            tb = real_state_text(b)
        except Exception as ex:
            ctx.counterexample('C13/refresh-raises-%s' % type(ex).__name__, 'refresh() after %s raises %s: %s' % (describe(hist), type(ex).__name__, ex),
                               {'kind': 'refresh', 'alphabet': A, 'history': hist, 'snapshot': snap, 'fail': fail, 'max_age': gc})
            continue
        n_ref += 1
        if ta != tb:
            ctx.counterexample('C13/refresh-is-not-discover-then-expire', 'after %s, refresh() leaves %s, discover();_garbage_collect() leaves %s' % (describe(hist), ta, tb),
                               {'kind': 'refresh', 'alphabet': A, 'history': hist, 'snapshot': snap, 'fail': fail, 'max_age': gc})
    ctx.count(n_ref)
    ctx.extra['refresh_cases'] = n_ref


# ---------------------------------------------------------------------------
# S, T: SortedList

WORDS = ['', 'a', 'b', 'B', 'ab', 'abc', 'b ', ' b', 'a;b', "a'b", 'Z', 'z', '0', '10', '2', 'lamp', 'Lamp', 'lamp-1', 'lamp-10', 'lamp-2', '~', '!']


def random_word(rng):
    if rng.random() < 0.7:
        return rng.choice(WORDS)
    return ''.join(rng.choice('abAB 1-') for _ in range(rng.randint(0, 4)))


def sorted_list_cases(ctx, n):
    from bardolph.lib.sorted_list import SortedList
    rng = ctx.rng
    cases = []
    # exhaustive: every subset of 4 values, every probe among 9 values around them
    vals = ['b', 'd', 'f', 'h']
    probes = ['a', 'b', 'c', 'd', 'e', 'f', 'g', 'h', 'i']
    for r in range(len(vals) + 1):
        for sub in itertools.combinations(vals, r):
            for x in probes:
                cases.append((list(sub), x))
    while len(cases) < n:
        k = rng.choice([0, 1, 1, 2, 3, 5, 8, 13])
        l = list({random_word(rng) for _ in range(k)})
        rng.shuffle(l)
        x = rng.choice(l) if l and rng.random() < 0.5 else random_word(rng)
        cases.append((l, x))
    texts = []
    for l, x in cases:
        try:
            s = SortedList(l) if rng.random() < 0.5 else SortedList()
            if len(s) != len(l):
                for v in l:
                    s.add(v)
            added = SortedList(list(s)); added.add(x)
            removed = SortedList(list(s)); removed.remove(x)
            t = (show_opt(show_str, s.first()) + '|' + show_opt(show_str, s.last()) + '|' + show_opt(show_str, s.next(x)) + '|'
                 + show_opt(show_str, s.prev(x)) + '|' + ('T' if s.has(x) else 'F') + '|' + show_names(list(added)) + '|' + show_names(list(removed)))
        except Exception as ex:
            t = '!%s' % type(ex).__name__
        texts.append(t)
        ctx.count()
        if l:
            ctx.nontriv(('S', tuple(sorted(l)), x))
    def bodies(fn):
        return ['Eval vm_compute in (%s %s).\n' % (fn, coq_list(['(%d, (%s, (%s, %d)))' % (i, coq_strs(c[0]), coq_str(c[1]), digest(t)) for i, (c, t) in part]))
                for part in chunks(list(enumerate(zip(cases, texts))), 150)]
    bad_spec = [i for strs in coq_eval('c13ss', IMP_SPEC, bodies('spec_sl_check')) for i in parse_ids(strs[0])]
    bad_model = []
    if ctx.model_runnable:
        bad_model = [i for strs in coq_eval('c13sm', IMP_MODEL, bodies('model_sl_check')) for i in parse_ids(strs[0])]
    fields = ['first', 'last', 'next', 'prev', 'has', 'add', 'remove']
    sel = sorted(set(bad_spec) | set(bad_model))[:30]
    if sel:
        arg = coq_list(['(%s, %s)' % (coq_strs(cases[i][0]), coq_str(cases[i][1])) for i in sel])
        want = coq_eval('c13sx', IMP_SPEC, ['Eval vm_compute in (spec_sl_texts %s).\n' % arg])[0][0].split('@')[:-1]
        mod = coq_eval('c13sy', IMP_MODEL, ['Eval vm_compute in (model_sl_texts %s).\n' % arg])[0][0].split('@')[:-1] if ctx.model_runnable else None
        for j, i in enumerate(sel):
            l, x = cases[i]
            explained = False
            if texts[i] != want[j]:
                explained = True
                if texts[i].startswith('!'):
                    ctx.counterexample('C13/sortedlist-raises-' + texts[i][1:], 'SortedList(%r) with probe %r raises %s' % (sorted(l), x, texts[i][1:]),
                                       {'kind': 'sortedlist', 'list': l, 'probe': x})
                else:
                    got, exp = texts[i].split('|'), want[j].split('|')
                    f = next((fields[q] for q in range(min(len(got), len(exp), 7)) if got[q] != exp[q]), 'format')
                    q = fields.index(f) if f in fields else 0
                    ctx.counterexample('C13/sortedlist-%s' % f, 'SortedList %r: %s(%r) gives %s, should give %s' % (sorted(l), f, x, got[q], exp[q]),
                                       {'kind': 'sortedlist', 'list': l, 'probe': x, 'real': texts[i], 'specification': want[j]})
            if mod is not None and texts[i] != mod[j]:
                ctx.broken_tie('correspondence', 'SortedList vs Lights/SortedList.v', {'list': sorted(l), 'probe': x, 'implementation': texts[i], 'model': mod[j]})
                if explained:
                    ctx.broken[-1]['explained_by_known'] = True
    # positions: the model's bisect definitions and its transcription of CPython's loops vs bisect itself
    if ctx.model_runnable:
        import bisect
        sub = cases[::7][:400]
        got = []
        for strs in coq_eval('c13bs', IMP_MODEL, ['Eval vm_compute in (bisect_texts %s).\n' % coq_list(['(%s, %s)' % (coq_strs(l), coq_str(x)) for l, x in part])
                                                  for part in chunks(sub, 100)]):
            got += strs[0].split('@')[:-1]
        for (l, x), g in zip(sub, got):
            s = sorted(l)
            w = '%d,%d,%d,%d' % (bisect.bisect_left(s, x), bisect.bisect(s, x), bisect.bisect_left(s, x), bisect.bisect(s, x))
            ctx.count()
            if g != w:
                ctx.broken_tie('correspondence', 'bisect positions vs Lights/SortedList.v', {'list': s, 'probe': x, 'python': w, 'model': g})
                break
    ctx.extra['sortedlist_cases'] = len(cases)
    ctx.sample({'sorted list': sorted(cases[200][0]), 'probe': cases[200][1], 'first|last|next|prev|has|add|remove': texts[200]})


def iteration_cases(ctx, n):
    """first()/next() (last()/prev()) on the real SortedList while remove() calls happen between the steps."""
    from bardolph.lib.sorted_list import SortedList
    rng = ctx.rng
    cases = []
    # exhaustive: 4 elements, at each of the first three rounds remove nothing / the current / the next / both / the last
    base = ['a', 'b', 'c', 'd']
    opts = [[], ['a'], ['b'], ['c'], ['d'], ['a', 'b'], ['b', 'c'], ['c', 'd'], ['a', 'b', 'c', 'd']]
    for fwd in (True, False):
        for s0 in opts[:3]:
            for s1 in opts:
                for s2 in opts:
                    cases.append((fwd, base, [s0, s1, s2, [], [], []]))
    while len(cases) < n:
        k = rng.randint(0, 8)
        l = list({random_word(rng) for _ in range(k)})
        sched = []
        for _ in range(k + 2):
            r = rng.random()
            sched.append([] if r < 0.4 else [rng.choice(l) if l and rng.random() < 0.8 else random_word(rng) for _ in range(rng.randint(1, 3))])
        cases.append((rng.random() < 0.5, l, sched))
    real = []
    for fwd, l, sched in cases:
        s = SortedList(l)
        tr = []
        steps = 0
        try:
            for v in (sched[0] if sched else []):
                s.remove(v)
            cur = s.first() if fwd else s.last()
            while cur is not None:
                tr.append((list(s), cur))
                steps += 1
                if steps > len(l) + 2:
                    raise RuntimeError('iteration does not end')
                for v in (sched[steps] if steps < len(sched) else []):
                    s.remove(v)
                cur = s.next(cur) if fwd else s.prev(cur)
            real.append((tr, list(s), None))
        except Exception as ex:
            real.append((tr, list(s), '%s: %s' % (type(ex).__name__, ex)))
        ctx.count()
        if any(sched[:len(tr) + 1]) and l:
            ctx.nontriv(('T', fwd, tuple(sorted(l)), str(sched)))
    def coq_tr(tr):
        return coq_list(['(%s, %s)' % (coq_strs(lk), coq_str(v)) for lk, v in tr])
    def coq_sched(sched):
        return coq_list([coq_strs(x) for x in sched])
    bodies = []
    idx = [i for i in range(len(cases)) if real[i][2] is None]
    for part in chunks(idx, 100):
        bodies.append('Eval vm_compute in (iter_check %s).\n' % coq_list(
            ['(%d, (%s, (%s, (%s, (%s, %s)))))' % (i, coq_bool(cases[i][0]), coq_strs(sorted(cases[i][1])), coq_sched(cases[i][2]), coq_tr(real[i][0]), coq_strs(real[i][1])) for i in part]))
    bad = [i for strs in coq_eval('c13it', IMP_SPEC, bodies) for i in parse_ids(strs[0])]
    for i in range(len(cases)):
        if real[i][2] is not None:
            ctx.counterexample('C13/iteration-raises-or-loops', 'iterating %r while removing %r: %s' % (sorted(cases[i][1]), cases[i][2], real[i][2]),
                               {'kind': 'iteration', 'forward': cases[i][0], 'list': cases[i][1], 'removals': cases[i][2]})
    for i in bad[:5]:
        fwd, l, sched = cases[i]
        ctx.counterexample('C13/iteration-%s-skips-or-repeats' % ('forward' if fwd else 'backward'),
                           'iterating %r %s while removing %r before the steps visits %r (lists at the steps: %r), which is not "nearest remaining name each time, until none is left"'
                           % (sorted(l), 'forwards' if fwd else 'backwards', sched, [v for _, v in real[i][0]], [lk for lk, _ in real[i][0]]),
                           {'kind': 'iteration', 'forward': fwd, 'list': l, 'removals': sched, 'visited': [v for _, v in real[i][0]]})
    if ctx.model_runnable:
        got = []
        for strs in coq_eval('c13im', IMP_MODEL, ['Eval vm_compute in (model_iter_texts %s).\n' % coq_list(
                ['(%s, (%s, %s))' % (coq_bool(f), coq_strs(l), coq_sched(s)) for f, l, s in part]) for part in chunks(cases, 100)]):
            got += strs[0].split('@')[:-1]
        n_rep = 0
        for i, g in enumerate(got):
            tr, final, err = real[i]
            t = show_list(lambda e: show_names(e[0]) + '>' + show_str(e[1]), tr) + '/' + show_names(final)
            if err is None and t != g and n_rep < 3:
                n_rep += 1
                ctx.broken_tie('correspondence', 'iteration vs Lights/SortedList.v iterate', {'case': repr(cases[i]), 'implementation': t, 'model': g})
                if i in bad:
                    ctx.broken[-1]['explained_by_known'] = True
    ctx.extra['iteration_cases'] = len(cases)
    ctx.sample({'iterate': sorted(cases[40][1]), 'forward': cases[40][0], 'removed before each step': cases[40][2], 'visited': [v for _, v in real[40][0]]})


# ---------------------------------------------------------------------------
# W: VmDiscover walks

def walk_cases(ctx, env, n):
    from bardolph.vm.vm_discover import VmDiscover
    from bardolph.vm.vm_codes import Operand
    rng = ctx.rng
    opers = {'OLight': Operand.LIGHT, 'OGroup': Operand.GROUP, 'OLocation': Operand.LOCATION}
    cases = []
    # the shortest ways for a group to lose its lights while its members are being iterated
    for fwd in (True, False):
        cases.append(('OGroup', 'g', True, fwd, [('D', [('a', 'g', 'l'), ('b', 'h', 'l')])], [[('D', [('a', 'h', 'l')])]]))
        cases.append(('OGroup', 'g', True, fwd, [('D', [('a', 'g', 'l'), ('b', 'g', 'l')])], [[('T', 20), ('E', 10)]]))
        cases.append(('OLocation', 'l', True, fwd, [('D', [('a', 'g', 'l')])], [[('D', [('a', 'g', 'm')])]]))
        cases.append(('OGroup', 'g', True, fwd, [('D', [('a', 'g', 'l'), ('b', 'g', 'l'), ('c', 'g', 'l')])], [[('D', [('b', 'h', 'l')])], [], []]))
    # a light, a group and a location labelled with the empty string: a name like any other, visited like any other (D63)
    for fwd in (True, False):
        pop = [('D', [('', 'g', 'l'), ('a', 'g', ''), ('b', '', 'l')])]
        cases.append(('OLight', '', False, fwd, pop, [[], [], [], []]))
        cases.append(('OGroup', '', False, fwd, pop, [[], [], []]))
        cases.append(('OLocation', '', False, fwd, pop, [[], [], []]))
        cases.append(('OGroup', 'g', True, fwd, pop, [[], [], []]))
        cases.append(('OLocation', '', True, fwd, pop, [[], []]))
    A = {'names': ['a', 'b', 'c', 'd', 'B'], 'groups': ['g', 'h'], 'locs': ['l', 'm']}
    while len(cases) < n:
        prefix = random_history(rng, A, 5)
        if not any(y[0] == 'D' and y[1] for y in prefix):
            prefix.append(('D', random_snapshot(rng, A, []) or [('a', 'g', 'l')]))
        members = rng.random() < 0.6
        op = rng.choice(['OGroup', 'OLocation']) if members else rng.choice(['OLight', 'OGroup', 'OLocation'])
        name = rng.choice(A['groups'] if op == 'OGroup' else A['locs']) if members else ''
        between = []
        for _ in range(rng.randint(1, 6)):
            between.append([] if rng.random() < 0.5 else random_history(rng, A, 2))
        cases.append((op, name, members, rng.random() < 0.5, prefix, between))
    real = []
    for op, name, members, fwd, prefix, between in cases:
        ls, obs = run_real(env, A, prefix)
        env.bind_set(ls)
        reg = types.SimpleNamespace(disc_forward=fwd, operand=opers[op], result=None)
        vm = VmDiscover(None, reg)
        out = []

        def res():
            r = reg.result
            return 'NULL' if r is Operand.NULL else show_str(r) if isinstance(r, str) else 'BAD:%r' % (r,)
        try:
            if members:
                vm.discm(name)
            else:
                vm.disc()
            out.append(res())
            for b in between:
                if reg.result is Operand.NULL:
                    break
                cur = reg.result
                for y in b:
                    env.apply(ls, y)
                if members:
                    vm.dnextm(name, cur)
                else:
                    vm.dnext(cur)
                out.append(res())
        except Exception as ex:
            out.append('FAULT:%s: %s' % (type(ex).__name__, ex))
        real.append(out)
        ctx.count()
        if len(out) > 2 and any(between[:len(out) - 1]):
            ctx.nontriv(('W', op, name, fwd, describe(prefix), str(between)))
    def coq_case(i, c):
        op, name, members, fwd, prefix, between = c
        return '(%d, (%s, (%s, (%s, (%s, (%s, %s))))))' % (i, op, coq_str(name), coq_bool(members), coq_bool(fwd), coq_syms(prefix), coq_list([coq_syms(b) for b in between]))
    want, mod = [], []
    args = [coq_list([coq_case(i, c) for i, c in part]) for part in chunks(list(enumerate(cases)), 60)]
    for strs in coq_eval('c13ws', IMP_SPEC, ['Eval vm_compute in (spec_walk_texts %s).\n' % a for a in args]):
        want += strs[0].split('@')[:-1]
    # which dnextm the tree has: the pinned one (faults once the group is gone) or the repaired one
    repaired = not any(x.startswith('FAULT') for x in real[0])
    ctx.extra['dnextm_variant'] = ('vm_dnextm_fixed (a vanished group ends the iteration)' if repaired
                                   else 'vm_dnextm (pinned: AttributeError once the group has vanished)')
    if ctx.model_runnable:
        for strs in coq_eval('c13wm', IMP_MODEL, ['Eval vm_compute in (model_walk_texts %s %s).\n' % (coq_bool(repaired), a) for a in args]):
            mod += strs[0].split('@')[:-1]
    n_rep = 0
    for i, c in enumerate(cases):
        op, name, members, fwd, prefix, between = c
        got = ''.join((x.split(':')[0] if x.startswith('FAULT') else x) + ';' for x in real[i])
        explained = False
        if got != want[i]:
            explained = True
            g, w = got.split(';'), want[i].split(';')
            k = next(q for q in range(max(len(g), len(w))) if q >= len(g) or q >= len(w) or g[q] != w[q])
            hist = prefix + [y for b in between[:k] for y in b]
            payload = {'kind': 'walk', 'operand': op, 'name': name, 'members': members, 'forward': fwd, 'prefix': prefix, 'between': between[:k],
                       'real': real[i], 'specification': want[i]}
            what_iter = ('the members of %s %r' % ('group' if op == 'OGroup' else 'location', name)) if members else \
                {'OLight': 'the lights', 'OGroup': 'the groups', 'OLocation': 'the locations'}[op]
            if k < len(g) and g[k] == 'FAULT':
                gone = members and k < len(w) and w[k] == 'NULL'
                sig = 'C13/member-iteration-group-vanished' if gone else 'C13/vm-step-raises'
                ctx.counterexample(sig, 'iterating %s %s: after %s, step %d raises %s instead of yielding %s'
                                   % (what_iter, 'forwards' if fwd else 'backwards', describe(hist), k, real[i][k][6:], w[k] if k < len(w) else '(end)'), payload)
            else:
                ctx.counterexample('C13/vm-step-%s-not-nearest' % ('members' if members else 'names'),
                                   'iterating %s %s: after %s, step %d yields %s, the nearest remaining name is %s'
                                   % (what_iter, 'forwards' if fwd else 'backwards', describe(hist), k, g[k] if k < len(g) else '(end)', w[k] if k < len(w) else '(end)'), payload)
        if mod and got != mod[i] and n_rep < 3:
            n_rep += 1
            ctx.broken_tie('correspondence', 'VmDiscover walk vs Lights/Directory.v vm_*', {'case': repr(c), 'implementation': got, 'model': mod[i]})
            if explained:
                ctx.broken[-1]['explained_by_known'] = True
    ctx.extra['walk_cases'] = len(cases)
    ctx.sample({'walk': cases[9][0], 'over members of': cases[9][1], 'prefix': describe(cases[9][4]), 'results': real[9]})


# ---------------------------------------------------------------------------

def run(ctx):
    ctx.rule = ('histories over discover(snapshot) / failed discover / time passing / expire(max_age); exhaustive part: every history of '
                '<= k symbols over the stated alphabets, one evaluation per (distinct real state, symbol); random part: one evaluation per '
                'step; plus SortedList operation cases, iterate-while-removing cases, VmDiscover walks, refresh cases and one evaluation of '
                'dir_invb per distinct real state.  Non-trivial = exhaustive part: distinct reached state with >= 2 lights in >= 2 groups or locations; '
                'random history with >= 3 distinct getter answers, non-empty sorted list, '
                'iteration / walk during which something was actually removed or changed; distinct by full input')
    ctx.assumptions += ['ASCII names; times are integral seconds (time.time patched inside bardolph.controller.light), light_gc_time integral',
                        'get_lights() of the LightApi either raises before yielding a light or returns the whole list (as LifxLanApi does)',
                        'single thread: discoveries and expiries happen between, not during, the steps of an iteration']
    ctx.trusted += ['harness/props/c13.py: fake LightApi, virtual clock, clone of the private state for state-space deduplication, text formats mirrored in Python']
    thorough = ctx.thorough()
    env = Env()
    states = {}
    try:
        # E
        if thorough:
            exhaustive(ctx, env, SMALL, symtab_for(SMALL), 4, 'small4', states)
            exhaustive(ctx, env, TINY, symtab_for(TINY, both_orders=True), 4, 'tiny4', states)
        else:
            exhaustive(ctx, env, SMALL, symtab_for(SMALL), 3, 'small3', states)
            exhaustive(ctx, env, TINY, symtab_for(TINY, both_orders=True), 3, 'tiny3', states)
        ctx.exhaustive = True
        # R
        random_histories(ctx, env, 10000 if thorough else 300, states)
        ctx.stage('random-histories')
        invariant_on_states(ctx, states)
        ctx.stage('invariant-on-real-states')
        # S, T
        sorted_list_cases(ctx, 6000 if thorough else 1200)
        ctx.stage('sortedlist')
        iteration_cases(ctx, 4000 if thorough else 800)
        ctx.stage('iteration')
        # W
        walk_cases(ctx, env, 3000 if thorough else 400)
        ctx.stage('vm-walks')
    finally:
        env.close()


def replay(ctx, payload):
    inp = payload.get('input', {})
    kind = inp.get('kind')
    env = Env()
    try:
        if kind == 'history':
            A = inp['alphabet']
            hist = [tuple([y[0]] + ([[tuple(r) for r in y[1]]] if y[0] == 'D' else list(y[1:]))) for y in inp['history']]
            ls, obs = run_real(env, A, hist)
            want = spec_texts_for(A, [hist])[0].split('@')[:-1]
            inv = coq_eval('c13rw', IMP_SPEC, ['Eval vm_compute in (inv_whys [(0, %s)]).\n' % coq_dir(ls)])[0][0] if not obs[-1][1].startswith('!') else '0:raised@'
            print('history: %s' % describe(hist))
            ok = True
            for i, ((full, pub, _, _), w) in enumerate(zip(obs, want)):
                same = pub == w
                ok = ok and same
                print(' step %d %s\n   real          %s\n   specification %s' % (i + 1, 'agrees' if same else 'DIFFERS', pub, w))
            print(' invariant on the final real state: %s' % inv.split(':', 1)[1].rstrip('@'))
            return ok and len(obs) == len(hist) and inv.startswith('0:ok')
        if kind == 'walk':
            ctx.model_runnable = False
            ctx.rng.seed(0)
            from bardolph.vm.vm_discover import VmDiscover
            from bardolph.vm.vm_codes import Operand
            opers = {'OLight': Operand.LIGHT, 'OGroup': Operand.GROUP, 'OLocation': Operand.LOCATION}
            fix = lambda h: [tuple([y[0]] + ([[tuple(r) for r in y[1]]] if y[0] == 'D' else list(y[1:]))) for y in h]
            prefix, between = fix(inp['prefix']), [fix(b) for b in inp['between']]
            A = SMALL
            ls, _ = run_real(env, A, prefix)
            env.bind_set(ls)
            reg = types.SimpleNamespace(disc_forward=inp['forward'], operand=opers[inp['operand']], result=None)
            vm = VmDiscover(None, reg)
            out = []
            try:
                vm.discm(inp['name']) if inp['members'] else vm.disc()
                out.append(reg.result)
                for b in between:
                    cur = reg.result
                    for y in b:
                        env.apply(ls, y)
                    vm.dnextm(inp['name'], cur) if inp['members'] else vm.dnext(cur)
                    out.append(reg.result)
            except Exception as ex:
                out.append('raises %s: %s' % (type(ex).__name__, ex))
            case = '(0, (%s, (%s, (%s, (%s, (%s, %s))))))' % (inp['operand'], coq_str(inp['name']), coq_bool(inp['members']), coq_bool(inp['forward']),
                                                            coq_syms(prefix), coq_list([coq_syms(b) for b in between]))
            want = coq_eval('c13rk', IMP_SPEC, ['Eval vm_compute in (spec_walk_texts [%s]).\n' % case])[0][0]
            print('walk after %s, then %s\n real          %r\n specification %s' % (describe(prefix), [describe(b) for b in between], out, want))
            return not any(isinstance(x, str) and x.startswith('raises') for x in out) and \
                ''.join(('NULL' if x is Operand.NULL else show_str(x)) + ';' for x in out) + '@' == want
        print('replay: inputs of kind %r are re-run by the full check (./check C13)' % kind)
        return False
    finally:
        env.close()
