"""C19 -- print, println and printf write exactly the documented text to standard output.

Every case is run as real jobs: ScriptJob.from_string + execute() with the PRODUCTION
output binding (bardolph.lib.std_out_output.configure(), as light_module.configure does;
tests_env.configure(output='stdout')), sys.stdout replaced by a recorder, the fake lights'
API wrapped so that device commands and stdout writes land in ONE ordered log.  A case is
one to three jobs run one after the other in the same process (same sink binding), some of
them executed again on the same ScriptJob.

Ties checked on every run:
  T1  str.format model: Io/Format.v parse_format / compile count / py_format against
      string.Formatter().parse and str.format of the running CPython on generated format
      strings and values (direct, no scripts);
  T2  correspondence: stdout text + device marks + aborted flag of every job against the
      model (Io/Output.v under the configuration read from the source by gen_output.py);
  O   oracle: the same observation against the specification (Io/OutputSpec.v render_spec /
      marks_spec), for every job the specification speaks about;
  M   malformed / unsupported format strings through the real compiler and VM: must end in
      a compile error or a clean run (possibly aborted by a logged run-time error), never
      in an exception escaping Parser.parse / execute (D13 belongs to C06: reported in the
      evidence, not as a C19 violation);
  P   probes reported in the evidence only (reading questions): named fields that
      collide with internal registers, macros as named fields.
The values handed to Coq are the ones the implementation pushed (recorded at OUT REGISTER),
laid onto the statement structure the generator knows; the named-field environment is read
from the machine (documented registers / variables) at the moment OUT PRINTF executes.
"""
import io
import json
import math
import string as pystring
import sys
import traceback

import common
from common import coq_str, coq_list, coq_z, coq_float

MODEL_TARGETS = ['Run/C19Model.vo']
EXTRA_TARGETS = ['Run/C19Spec.vo', 'Run/C19Model.vo']

SPEC_IMPORT = 'From Coq Require Import Floats.\nFrom Bardolph Require Import Io.Format Io.OutputSpec Run.C19Spec.'
MODEL_IMPORT = 'From Coq Require Import Floats.\nFrom Bardolph Require Import Io.Format Io.OutputSpec Io.Output Run.C19Spec Run.C19Model.'

DOC_REGISTERS = ('hue', 'saturation', 'brightness', 'kelvin', 'duration')
DEV_CODES = {'on all': 1, 'off all': 2, 'set all': 3}
UNKNOWN = object()
# candidate repairs the model can put in one at a time (Run/C19Model.v with_repair), and the
# signature of a violation that the repair removes
REPAIR_GROUPS = [14, 16, 36, 35, 12, 0]
GROUP_SIGS = {14: 'C19/separator-lost-between-prints', 16: 'C19/space-after-line-break',
              36: 'C19/print-inside-printf-argument-call', 35: 'C19/carry-over-into-next-job',
              12: 'C19/pending-values-survive-into-next-run',
              0: 'C19/several-known-defects-combined'}


# ---------------------------------------------------------------------------
# text helpers shared with Run/Show.v

def show_str(s):
    out = []
    for ch in s:
        n = ord(ch)
        if n < 32 or n >= 127 or ch in "\\;'":
            out.append('\\x%02x' % n)
        else:
            out.append(ch)
    return "'" + ''.join(out) + "'"


def chunks(l, n):
    return [l[i:i + n] for i in range(0, len(l), n)]


def is_ascii(s):
    return all(ord(c) < 128 for c in s)


# ---------------------------------------------------------------------------
# values

def coq_oval(v):
    """Python value -> Coq oval term; None when the value kind is outside the model."""
    if v is None:
        return 'ONone'
    if isinstance(v, bool):
        return '(OBool %s)' % ('true' if v else 'false')
    if isinstance(v, int):
        return '(OInt %s)' % coq_z(v)
    if isinstance(v, float):
        if math.isnan(v) or math.isinf(v):
            return None
        return '(OFloat %s %s)' % (coq_str(str(v)), coq_float(v))
    if isinstance(v, str):
        if not is_ascii(v):
            return None
        return '(OStr %s)' % coq_str(v)
    return None


def kind_of(v):
    if v is None:
        return 'none'
    if isinstance(v, bool):
        return 'bool'
    if isinstance(v, int):
        return 'int'
    if isinstance(v, float):
        return 'float'
    if isinstance(v, str):
        return 'str'
    return type(v).__name__


# ---------------------------------------------------------------------------
# generator

class Gen:
    """Grammar-directed generator of output scripts.  It keeps the registers and variables
    it has set, so every value comes with the value Python semantics gives it (used only
    when the run stops before the value is pushed)."""

    WORDS = ['a', 'b', 'hello', 'Light', 'x y', 'Top', 'rgb', '-----', 'n=', 'ok.', 'A1', '(', ')', '#', '%', ':', '*']

    def __init__(self, rng, dist):
        self.rng = rng
        self.dist = dist
        self.vars = {}
        self.regs = {}
        self.prelude = []
        self.routines = {}

    def count(self, group, key):
        d = self.dist.setdefault(group, {})
        d[key] = d.get(key, 0) + 1

    # ---- prelude
    def make_prelude(self, nested_ok=True):
        rng = self.rng
        lines = []
        for r in DOC_REGISTERS:
            if rng.random() < 0.7:
                v = self.reg_number(r)
                lines.append('%s %s' % (r, self.num_src(v)))
                self.regs[r] = v
        lines.append('define dbl with p begin return {p * 2} end')
        self.routines['dbl'] = ('dbl', 1)
        lines.append('define nothing begin return end')
        lines.append('define mac 42')
        lines.append('define smac "macro text"')
        if nested_ok:
            lines.append('define shout with p begin print p return {p + 1} end')
            lines.append('define noisy begin println "in" printf "<{}>" 7 return 3 end')
            lines.append('define deep with p begin printf "{} {}|" p [shout p] return 0 end')
            # printf statements that take no positional value of their own while an outer statement collects its values
            lines.append('define banner begin printf "--" return 4 end')
            lines.append('define tell with p begin printf "p={p};" return 5 end')
        for name in ('x', 'y', 'count', 'the_light', 'ratio', 'flag'):
            if rng.random() < 0.75:
                v = self.simple_value(kinds=('int', 'int', 'float', 'str', 'bool'))
                lines.append('assign %s %s' % (name, v['src']))
                self.vars[name] = v['expect']
        self.prelude = lines
        return lines

    def reg_number(self, r):
        rng = self.rng
        if r == 'kelvin':
            return rng.choice([2000, 2700, 3500, 6500, 2750.5])
        if r == 'duration':
            return rng.choice([0, 1, 2, 0.5, 1.25])
        if r == 'hue':
            return rng.choice([0, 120, 240, 359, 120.5, 33.333, 90.0])
        return rng.choice([0, 50, 75, 100, 12.5, 99.9, 50.0])

    @staticmethod
    def num_src(v):
        return repr(v)

    # ---- values
    def rand_int(self):
        rng = self.rng
        return rng.choice([0, 1, 2, 5, 7, 10, 42, 100, 255, 1000, 65535, rng.randrange(0, 100000)])

    def rand_float(self):
        rng = self.rng
        return rng.choice([0.5, 2.5, 1.5, 0.25, 2.675, 1.005, 0.125, 3.14159, 99.995, 120.5, 0.1, 1e-3,
                           round(rng.uniform(0, 1000), rng.choice([1, 2, 3, 4]))])

    def rand_text(self):
        rng = self.rng
        n = rng.choice([0, 1, 1, 2, 3])
        return ' '.join(rng.choice(self.WORDS) for _ in range(n)) if n else ''

    def simple_value(self, kinds=None):
        rng = self.rng
        kind = rng.choice(kinds or ('int', 'float', 'str', 'bool'))
        if kind == 'int':
            v = self.rand_int()
            return {'src': str(v), 'kind': 'int', 'expect': v, 'pre': []}
        if kind == 'float':
            v = self.rand_float()
            src = repr(v) if 'e' not in repr(v) else '0.001'
            v = float(src)
            return {'src': src, 'kind': 'float', 'expect': v, 'pre': []}
        if kind == 'str':
            t = self.rand_text()
            if rng.random() < 0.15:
                t += rng.choice(['{}', '{', '}', '{0}', '{{x}}'])
            if rng.random() < 0.12:
                t = rng.choice(['mac', 'smac', 'dbl', 'nothing'])     # a quoted string that spells a macro or a routine is still that string
            if t in ('{', '[', '-'):
                # grammar corner (not C19's): such a string is taken for the mark itself
                t += ' '
            return {'src': '"%s"' % t, 'kind': 'str', 'expect': t, 'pre': []}
        a, b = rng.randrange(0, 10), rng.randrange(0, 10)
        op = rng.choice(['<', '>', '==', '<=', '>=', '!='])
        val = {'<': a < b, '>': a > b, '==': a == b, '<=': a <= b, '>=': a >= b, '!=': a != b}[op]
        return {'src': '{%d %s %d}' % (a, op, b), 'kind': 'bool', 'expect': val, 'pre': []}

    def value(self, nested_ok=True, want=None):
        """A value of any syntactic kind; `want` restricts the run-time type."""
        rng = self.rng
        for _ in range(40):
            form = rng.choice(['lit', 'lit', 'reg', 'var', 'var', 'expr', 'expr', 'call', 'call', 'macro', 'nested'])
            v = self.value_form(form, nested_ok)
            if v is None:
                continue
            if want and kind_of(v['expect']) not in want:
                continue
            self.count('value_forms', v['form'])
            self.count('value_kinds', kind_of(v['expect']))
            return v
        v = self.simple_value(kinds=[w for w in (want or ('int',)) if w in ('int', 'float', 'str', 'bool')] or ['int'])
        v['form'] = 'lit'
        self.count('value_forms', 'lit')
        self.count('value_kinds', kind_of(v['expect']))
        return v

    def value_form(self, form, nested_ok):
        rng = self.rng
        if form == 'lit':
            v = self.simple_value()
            v['form'] = 'truth-expr' if v['kind'] == 'bool' else 'literal-' + v['kind']
            return v
        if form == 'reg':
            if not self.regs:
                return None
            r = rng.choice(sorted(self.regs))
            return {'src': r, 'form': 'register', 'expect': self.regs[r], 'pre': []}
        if form == 'var':
            if not self.vars:
                return None
            n = rng.choice(sorted(self.vars))
            return {'src': n, 'form': 'variable', 'expect': self.vars[n], 'pre': []}
        if form == 'macro':
            if rng.random() < 0.5:
                return {'src': 'mac', 'form': 'macro', 'expect': 42, 'pre': []}
            return {'src': 'smac', 'form': 'macro', 'expect': 'macro text', 'pre': []}
        if form == 'expr':
            nums = [n for n in sorted(self.vars) if isinstance(self.vars[n], int) and not isinstance(self.vars[n], bool)]
            a = rng.choice(nums) if nums and rng.random() < 0.6 else None
            av = self.vars[a] if a else self.rand_int()
            asrc = a if a else str(av)
            b, c = rng.randrange(1, 9), rng.randrange(0, 9)
            shape = rng.choice(['mul-add', 'div', 'sub', 'paren', 'neg', 'mod'])
            if shape == 'mul-add':
                return {'src': '{%s * %d + %d}' % (asrc, b, c), 'form': 'expression', 'expect': av * b + c, 'pre': []}
            if shape == 'div':
                return {'src': '{%s / %d}' % (asrc, b), 'form': 'expression', 'expect': av / b, 'pre': []}
            if shape == 'sub':
                return {'src': '{%d - %s}' % (c, asrc), 'form': 'expression', 'expect': c - av, 'pre': []}
            if shape == 'paren':
                return {'src': '{(%s + %d) / 2}' % (asrc, c), 'form': 'expression', 'expect': (av + c) / 2, 'pre': []}
            if shape == 'neg':
                return {'src': '{-%d}' % b, 'form': 'expression', 'expect': -b, 'pre': []}
            return {'src': '{%s %% %d}' % (asrc, b), 'form': 'expression', 'expect': av % b, 'pre': []}
        if form == 'call':
            which = rng.choice(['round', 'trunc', 'floor', 'ceil', 'dbl', 'nothing'])
            if which in ('round', 'trunc', 'floor', 'ceil'):
                f = rng.choice([2.5, 3.5, 0.5, 1.4999, 7.9, 2.0, 10.25])
                val = {'round': round, 'trunc': math.trunc, 'floor': math.floor, 'ceil': math.ceil}[which](f)
                return {'src': '[%s %r]' % (which, f), 'form': 'call-builtin', 'expect': val, 'pre': []}
            if which == 'dbl':
                n = self.rand_int()
                return {'src': '[dbl %d]' % n, 'form': 'call-routine', 'expect': n * 2, 'pre': []}
            return {'src': '[nothing]', 'form': 'call-routine', 'expect': None, 'pre': []}
        if form == 'nested':
            if not nested_ok or 'shout' not in self.prelude_text():
                return None
            which = rng.choice(['shout', 'shout', 'noisy', 'deep', 'banner', 'tell'])
            if which == 'banner':
                pre = [{'k': 'printf', 'fmt': '--', 'args': [], 'names': []}]
                return {'src': '[banner]', 'form': 'call-printing-routine', 'expect': 4, 'pre': pre}
            if which == 'tell':
                n = self.rand_int()
                pre = [{'k': 'printf', 'fmt': 'p={p};', 'args': [], 'names': ['p']}]
                return {'src': '[tell %d]' % n, 'form': 'call-printing-routine', 'expect': 5, 'pre': pre}
            if which == 'shout':
                n = self.rand_int()
                pre = [{'k': 'print', 'v': {'src': 'p', 'expect': n, 'pre': []}}]
                return {'src': '[shout %d]' % n, 'form': 'call-printing-routine', 'expect': n + 1, 'pre': pre}
            if which == 'noisy':
                pre = [{'k': 'println', 'v': {'src': '"in"', 'expect': 'in', 'pre': []}},
                       {'k': 'printf', 'fmt': '<{}>', 'args': [{'src': '7', 'expect': 7, 'pre': []}], 'names': []}]
                return {'src': '[noisy]', 'form': 'call-printing-routine', 'expect': 3, 'pre': pre}
            n = self.rand_int()
            inner = {'src': '[shout p]', 'expect': n + 1,
                     'pre': [{'k': 'print', 'v': {'src': 'p', 'expect': n, 'pre': []}}]}
            pre = [{'k': 'printf', 'fmt': '{} {}|', 'args': [{'src': 'p', 'expect': n, 'pre': []}, inner], 'names': []}]
            return {'src': '[deep %d]' % n, 'form': 'call-printing-routine', 'expect': 0, 'pre': pre}
        return None

    def prelude_text(self):
        return '\n'.join(self.prelude)

    # ---- format strings
    def literal_chunk(self):
        rng = self.rng
        return rng.choice(['', ' ', ' ', ', ', ': ', '|', ' = ', 'Light: ', 'a', 'b ', ' c', '{{', '}}', '{{}}', '\\n', '\\n',
                           ' \\n', 'x\\n', '-', '.', ' / ', 'n', '\\', '%d', '[', ']'])

    def spec_for(self, v, allow_bad=False):
        """A format spec; mostly one that fits the run-time type of v."""
        rng = self.rng
        k = kind_of(v)
        w = rng.choice([1, 2, 3, 4, 5, 6, 8, 9, 10, 12, 15])
        p = rng.choice([0, 1, 2, 2, 3, 4, 6, 10])
        al = rng.choice(['<', '>', '^'])
        if allow_bad and rng.random() < 0.5:
            choice = rng.choice(['d', 's', '.2f', '>5d', '7s', 'f'])
            return choice, 'cross:' + choice
        if k in ('int', 'bool'):
            forms = ['', '', 'd', 'd', '%s%d' % (al, w), '%d' % w, '%s%dd' % (al, w), '%dd' % w, '.%df' % p,
                     '%s%d.%df' % (al, w, p), '%d.%df' % (w, p), 'f']
        elif k == 'float':
            forms = ['', '', '%s%d' % (al, w), '%d' % w, '.%df' % p, '.%df' % p, '%s%d.%df' % (al, w, p), '%d.%df' % (w, p), 'f']
        elif k == 'str':
            forms = ['', '', 's', '%ds' % w, '%s%d' % (al, w), '%d' % w, '%s%ds' % (al, w)]
        else:
            forms = ['']
        s = rng.choice(forms)
        return s, self.spec_kind(s)

    @staticmethod
    def spec_kind(s):
        import re
        if s == '':
            return '(empty)'
        k = re.sub(r'\d+', 'N', s)
        return k

    def format_string(self, nested_ok=True, mode=None, bad_types=False):
        """Returns (fmt text as in the script, args, names)."""
        rng = self.rng
        mode = mode or rng.choice(['auto', 'auto', 'auto', 'manual', 'named', 'auto+named', 'manual+named', 'none'])
        self.count('numbering', mode)
        nfields = 0 if mode == 'none' else rng.choice([1, 1, 2, 2, 3, 4])
        fields = []
        for _ in range(nfields):
            if mode == 'auto':
                fields.append('pos')
            elif mode == 'manual':
                fields.append('idx')
            elif mode == 'named':
                fields.append('name')
            elif mode == 'auto+named':
                fields.append(rng.choice(['pos', 'name']))
            else:
                fields.append(rng.choice(['idx', 'name']))
        npos = sum(1 for f in fields if f in ('pos', 'idx'))
        args = [self.value(nested_ok) for _ in range(npos)]
        for i in range(npos):
            # outside an expression a minus sign may precede a number or a numeric macro: printf values accept it
            if rng.random() < 0.12:
                if rng.random() < 0.3:
                    args[i] = {'src': '-mac', 'form': 'negated-macro', 'expect': -42, 'pre': []}
                else:
                    v = rng.choice([self.rand_int(), self.rand_float()])
                    src = '-' + (repr(v) if 'e' not in repr(v) else '0.001')
                    args[i] = {'src': src, 'form': 'negative-literal', 'expect': -float(src[1:]) if '.' in src else -int(src[1:]), 'pre': []}
                self.count('value_forms', args[i]['form'])
        names_avail = sorted(self.regs) + sorted(self.vars)
        text = self.literal_chunk()
        names = []
        pi = 0
        for f in fields:
            if f == 'pos':
                spec, sk = self.spec_for(args[pi]['expect'], bad_types and rng.random() < 0.3)
                pi += 1
                text += '{' + (':' + spec if spec or rng.random() < 0.1 else '') + '}'
            elif f == 'idx':
                i = rng.randrange(0, npos)
                spec, sk = self.spec_for(args[i]['expect'], bad_types and rng.random() < 0.3)
                text += '{%d' % i + (':' + spec if spec else '') + '}'
            else:
                if not names_avail:
                    text += '{}' if False else ''
                    continue
                n = rng.choice(names_avail)
                val = self.regs.get(n, self.vars.get(n))
                spec, sk = self.spec_for(val, bad_types and rng.random() < 0.3)
                text += '{' + n + (':' + spec if spec else '') + '}'
                names.append(n)
            self.count('spec_kinds', sk)
            text += self.literal_chunk()
        if rng.random() < 0.35:
            text += '\\n'
        if text == '':
            text = ' '
        if text.endswith('\\'):
            text += '.'
        return text, args, names

    # ---- statements
    def statement(self, nested_ok=True, bad_types=False):
        rng = self.rng
        k = rng.choice(['print', 'print', 'print', 'println', 'println', 'println0', 'printf', 'printf', 'printf',
                        'printf', 'dev', 'print0', 'setreg', 'assign'])
        self.count('statements', k)
        if k == 'print0':
            return {'k': 'print0', 'src': 'print'}
        if k == 'println0':
            return {'k': 'println0', 'src': 'println'}
        if k in ('print', 'println'):
            v = self.value(nested_ok)
            return {'k': k, 'v': v, 'src': '%s %s' % (k, v['src'])}
        if k == 'printf':
            fmt, args, names = self.format_string(nested_ok, bad_types=bad_types)
            src = 'printf "%s"' % fmt + ''.join(' ' + a['src'] for a in args)
            return {'k': 'printf', 'fmt': fmt, 'args': args, 'names': names, 'src': src,
                    'expect_env': {n: (self.regs[n] if n in self.regs else self.vars.get(n)) for n in names}}
        if k == 'dev':
            cmd = rng.choice(sorted(DEV_CODES))
            return {'k': 'dev', 'dev': DEV_CODES[cmd], 'src': cmd}
        if k == 'setreg':
            r = rng.choice(DOC_REGISTERS)
            v = self.reg_number(r)
            self.regs[r] = v
            return {'k': 'other', 'src': '%s %s' % (r, self.num_src(v))}
        name = rng.choice(['x', 'y', 'count', 'ratio'])
        v = self.simple_value(kinds=('int', 'int', 'float', 'str'))
        self.vars[name] = v['expect']
        return {'k': 'other', 'src': 'assign %s %s' % (name, v['src'])}


def job_source(job):
    return '\n'.join(job['prelude']) + '\n' + '\n'.join(s['src'] for s in job['stmts']) + '\n'


def gen_job(rng, dist, n_stmts=None, nested_ok=True, bad_types=False):
    g = Gen(rng, dist)
    prelude = g.make_prelude(nested_ok)
    n = n_stmts if n_stmts is not None else rng.choice([1, 2, 3, 4, 5, 6, 8, 10, 14])
    stmts = []
    while len(stmts) < n:
        saved = (dict(g.regs), dict(g.vars))
        st = g.statement(nested_ok, bad_types)
        # grammar corner (not C19's): a bare print/println swallows a following register name
        if stmts and stmts[-1]['k'] in ('print0', 'println0') and st['src'].split()[0] in DOC_REGISTERS:
            g.regs, g.vars = saved
            continue
        stmts.append(st)
    return {'prelude': prelude, 'stmts': stmts, 'again': False}


def fixed_job(lines, stmts, again=False):
    return {'prelude': lines, 'stmts': stmts, 'again': again}


def lit(v):
    if isinstance(v, str):
        return {'src': '"%s"' % v, 'expect': v, 'pre': []}
    return {'src': repr(v), 'expect': v, 'pre': []}


def st_print(v):
    return {'k': 'print', 'v': v, 'src': 'print ' + v['src']}


def st_println(v=None):
    if v is None:
        return {'k': 'println0', 'src': 'println'}
    return {'k': 'println', 'v': v, 'src': 'println ' + v['src']}


def st_printf(fmt, args=(), names=()):
    return {'k': 'printf', 'fmt': fmt, 'args': list(args), 'names': list(names),
            'src': 'printf "%s"' % fmt + ''.join(' ' + a['src'] for a in args)}


def st_dev(cmd):
    return {'k': 'dev', 'dev': DEV_CODES[cmd], 'src': cmd}


def corpus():
    """Small fixed cases that run first (minimal witnesses of the known defects)."""
    shout = 'define shout with p begin print p return {p + 1} end'
    nested = {'src': '[shout 9]', 'expect': 10, 'pre': [{'k': 'print', 'v': {'src': 'p', 'expect': 9, 'pre': []}}]}
    cases = [
        [fixed_job([], [st_print(lit(120)), st_print(lit(50))])],
        [fixed_job(['hue 120 saturation 50 brightness 75 kelvin 2000'],
                   [st_println(lit('-----')), st_print({'src': 'hue', 'expect': 120, 'pre': []}),
                    st_print({'src': 'saturation', 'expect': 50, 'pre': []}),
                    st_print({'src': 'brightness', 'expect': 75, 'pre': []}),
                    st_println({'src': 'kelvin', 'expect': 2000, 'pre': []}), st_println(lit('-----'))])],
        [fixed_job([], [st_printf('a\\n'), st_print(lit(2))])],
        [fixed_job([], [st_print(lit(1)), st_println(), st_print(lit(2))])],
        [fixed_job([], [st_print(lit('hello'))])],
        [fixed_job([], [st_print(lit(1))]), fixed_job([], [st_print(lit(2))])],
        [fixed_job([], [st_print(lit(1)), st_dev('on all'), st_print(lit(2)), st_dev('set all'), st_println(lit(3)), st_dev('off all')])],
        [fixed_job(['define shoutln with p begin println p return {p + 1} end'],
                   [st_printf('{}{}', [lit(1), {'src': '[shoutln 9]', 'expect': 10,
                                                  'pre': [{'k': 'println', 'v': {'src': 'p', 'expect': 9, 'pre': []}}]}])])],
        [fixed_job([shout], [st_printf('{} {}', [lit(1), nested])])],
        # a bare println / print inside a routine that is called as a later value of a printf writes nothing of the printf's own values
        [fixed_job(['define nl begin println return 7 end'],
                   [st_printf('{} {}\\n', [lit(1), {'src': '[nl]', 'expect': 7, 'pre': [{'k': 'println0'}]}]), st_println(lit('done'))])],
        [fixed_job(['define sp begin print return 7 end'],
                   [st_printf('{} {} {}\\n', [lit(1), lit(2), {'src': '[sp]', 'expect': 7, 'pre': [{'k': 'print0'}]}])])],
        [fixed_job([shout], [st_print(nested)])],
        [fixed_job([], [st_print(lit(1)), st_printf('{:d}', [lit(2.5)])]), fixed_job([], [st_print(lit(3))])],
        [fixed_job([], [st_print(lit(1)), st_printf('{:d}', [lit(2.5)])]), fixed_job([], [st_print(lit(1)), st_printf('{:d}', [lit(2.5)])], again=True),
         fixed_job([], [st_print(lit(3))])],
        [fixed_job(['hue 456'], [st_printf('{} {hue}', [lit(123)], ['hue'])])],
        [fixed_job(['assign x 100', 'assign y 200'],
                   [st_printf('{x} {} {}', [{'src': 'y', 'expect': 200, 'pre': []}, {'src': '{(x + y) / 2}', 'expect': 150.0, 'pre': []}], ['x'])])],
        [fixed_job([], [st_printf('{2} {1} {0}', [lit(75), lit(50), lit(120)])])],
        [fixed_job([], [st_print(lit('')), st_print(lit(2)), st_print(lit('')), st_print(lit(3))])],
        [fixed_job([], [st_printf('x\\n\\n'), st_print(lit(3)), st_printf('\\n'), st_printf('{:>8.2f}|{:.0f}|{:<6}|', [lit(2.675), lit(2.5), lit('ab')])])],
        # the two characters backslash-n inside a VALUE are written as they are (only the format's own are line breaks)
        [fixed_job(['assign path "C:\\new\\lights"'], [st_printf('{}|{path}\\n', [lit('a\\nb')], ['path']), st_print(lit('a\\nb'))])],
    ]
    return cases


# ---------------------------------------------------------------------------
# running the implementation

class Recorder(io.TextIOBase):
    def __init__(self):
        self.text = []
        self.marks = []

    def write(self, s):
        self.text.append(s)
        return len(s)

    def flush(self):
        pass

    def so_far(self):
        return ''.join(self.text)

    def reset(self):
        self.text = []
        self.marks = []


class Instrument:
    """Wraps VmIo.out (records pushed values and the named environment at PRINTF) and the
    fake light API (device marks)."""

    def __init__(self):
        from bardolph.vm.vm_io import VmIo
        from bardolph.vm.vm_codes import IoOp, Register
        from bardolph.fakes.fake_light_api import FakeLightApi
        self.VmIo, self.IoOp, self.Register, self.Api = VmIo, IoOp, Register, FakeLightApi
        self.rec = None
        self.pushed = []
        self.envs = []
        self.names_wanted = []

    def __enter__(self):
        inst = self
        self.saved = (self.VmIo.out, self.Api.set_color_all_lights, self.Api.set_power_all_lights, sys.stdout)
        orig_out = self.VmIo.out

        def out(vmio, instruction, *a, **k):
            op = instruction.param0
            if op is inst.IoOp.REGISTER:
                inst.pushed.append(vmio._reg.get_by_enum(instruction.param1))
            elif op is inst.IoOp.PRINTF:
                env = {}
                for field in _safe_fields(instruction.param1):
                    name = field
                    if name in DOC_REGISTERS:
                        env[name] = vmio._reg.get_by_enum(inst.Register[name.upper()])
                    else:
                        env[name] = vmio._call_stack.get_variable(name)
                inst.envs.append(env)
            return orig_out(vmio, instruction, *a, **k)

        orig_color, orig_power = self.Api.set_color_all_lights, self.Api.set_power_all_lights

        def set_color_all(api, color, duration):
            inst.rec.marks.append((3, inst.rec.so_far()))
            return orig_color(api, color, duration)

        def set_power_all(api, power, duration):
            inst.rec.marks.append((1 if power else 2, inst.rec.so_far()))
            return orig_power(api, power, duration)

        self.VmIo.out = out
        self.Api.set_color_all_lights = set_color_all
        self.Api.set_power_all_lights = set_power_all
        self.rec = Recorder()
        sys.stdout = self.rec
        return self

    def __exit__(self, *exc):
        self.VmIo.out, self.Api.set_color_all_lights, self.Api.set_power_all_lights, sys.stdout = self.saved
        return False


def _safe_fields(fmt):
    """Keyword field names of a format text (after the \\n replacement), [] when it does not parse."""
    try:
        out = []
        for _, name, _, _ in pystring.Formatter().parse(fmt.replace('\\n', '\n')):
            if name is not None and len(name) > 0 and not name.isdecimal():
                out.append(name)
        return out
    except ValueError:
        return []


def run_case(case):
    """Runs the jobs of a case in one process state (one sink binding).  Returns a list of
    per-job observations: dict(result string, pushed values, envs, compile_ok, raised)."""
    import tests_env
    from bardolph.controller.script_job import ScriptJob
    tests_env.configure(output='stdout')
    obs = []
    prev_job = None
    with Instrument() as inst:
        for job in case:
            inst.rec.reset()
            inst.pushed, inst.envs = [], []
            src = job_source(job)
            o = {'src': src, 'compile_ok': True, 'raised': None, 'aborted': False}
            try:
                if job.get('again') and prev_job is not None:
                    sj = prev_job
                else:
                    sj = ScriptJob.from_string(src)
                if sj.program is None:
                    o['compile_ok'] = False
                    o['errors'] = str(sj.compile_errors)
                else:
                    sj.execute()
                    m = sj._machine
                    o['aborted'] = m._reg.pc < len(m._program)
                prev_job = sj
            except Exception as ex:  # the property forbids this
                o['raised'] = '%s: %s' % (type(ex).__name__, ex)
                o['trace'] = traceback.format_exc()[-1500:]
            o['text'] = inst.rec.so_far()
            o['marks'] = list(inst.rec.marks)
            o['pushed'] = list(inst.pushed)
            o['envs'] = list(inst.envs)
            o['result'] = ('A' if o['aborted'] else 'D') + show_str(o['text']) + '#' + ''.join(
                '%d:%s,' % (d, show_str(t)) for d, t in o['marks'])
            obs.append(o)
    return obs


# ---------------------------------------------------------------------------
# events for Coq

class Unsupported(Exception):
    pass


def events_of(job, o):
    """Coq term for the job's event list: the statement structure filled with the values the
    implementation pushed (in evaluation order) and the environments read at each PRINTF;
    values the run never reached are the generator's expected ones."""
    pushed = list(o['pushed'])
    envs = list(o['envs'])
    state = {'pi': 0, 'ei': 0, 'mismatch': []}

    def next_value(v):
        if state['pi'] < len(pushed):
            val = pushed[state['pi']]
            state['pi'] += 1
            if v.get('expect', UNKNOWN) is not UNKNOWN and (val != v['expect'] or type(val) is not type(v['expect'])):
                state['mismatch'].append((v['src'], repr(v['expect']), repr(val), v.get('form', '')))
        else:
            val = v.get('expect', UNKNOWN)
            if val is UNKNOWN:
                raise Unsupported('value never pushed and not predictable: ' + v['src'])
        t = coq_oval(val)
        if t is None:
            raise Unsupported('value kind outside the model: %r' % (val,))
        return t

    def arg(v):
        pre = [ev(s) for s in v.get('pre', [])]
        return '(Arg %s %s)' % (coq_list(pre), next_value(v))

    def ev(s):
        k = s['k']
        if k == 'print0':
            return 'EPrint0'
        if k == 'println0':
            return 'EPrintln0'
        if k == 'print':
            return '(EPrint %s)' % arg(s['v'])
        if k == 'println':
            return '(EPrintln %s)' % arg(s['v'])
        if k == 'dev':
            return '(EDevice %d)' % s['dev']
        if k == 'printf':
            args = [arg(a) for a in s['args']]
            if state['ei'] < len(envs):
                env = envs[state['ei']]
                state['ei'] += 1
            else:
                env = s.get('expect_env')
                if env is None:
                    if _safe_fields(s['fmt']):
                        raise Unsupported('named environment never observed')
                    env = {}
            items = []
            for n in sorted(env):
                t = coq_oval(env[n])
                if t is None or not is_ascii(n):
                    raise Unsupported('environment value outside the model')
                items.append('(%s, %s)' % (coq_str(n), t))
            if not is_ascii(s['fmt']):
                raise Unsupported('non-ASCII format')
            return '(EPrintf %s %s %s)' % (coq_str(s['fmt']), coq_list(args), coq_list(items))
        raise Unsupported('statement kind ' + k)

    evs = [ev(s) for s in job['stmts'] if s['k'] != 'other']
    return coq_list(evs), state['mismatch']


def case_term(case, obs):
    jobs = []
    mism = []
    for job, o in zip(case, obs):
        evs, mm = events_of(job, o)
        mism += mm
        jobs.append('(%s, %s)' % ('true' if job.get('again') else 'false', evs))
    return coq_list(jobs), mism


def eval_cases(tag, imports, fn, terms, njobs, per_file=60):
    """fn applied to a list of case terms; returns per case the list of its job results."""
    files = ['Eval vm_compute in (%s %s).\n' % (fn, coq_list(part)) for part in chunks(terms, per_file)]
    res = common.run_cases(tag, imports, files)
    flat = []
    for (ok, strs, log) in res:
        if not ok or len(strs) != 1:
            raise RuntimeError('coq evaluation of %s failed: %s' % (fn, log[-1500:]))
        flat.extend(strs[0].split(';')[:-1])
    if len(flat) != sum(njobs):
        raise RuntimeError('coq evaluation of %s: %d results for %d jobs' % (fn, len(flat), sum(njobs)))
    out = []
    i = 0
    for n in njobs:
        out.append(flat[i:i + n])
        i += n
    return out


# ---------------------------------------------------------------------------
# classification of an output-text difference (fixed classifier)

def parse_result(r):
    """'D'text'#marks' -> (flag, text, marks string)"""
    import re
    m = re.match(r"^([ADN])(?:'((?:[^'])*)'#(.*))?$", r, re.S)
    if not m or m.group(1) == 'N':
        return ('N', None, None)
    text = re.sub(r'\\x([0-9a-f]{2})', lambda mm: chr(int(mm.group(1), 16)), m.group(2))
    return (m.group(1), text, m.group(3))


def has_nested(job):
    def vn(v):
        return bool(v.get('pre')) or any(sn(s) for s in v.get('pre', []))

    def sn(s):
        if s['k'] in ('print', 'println'):
            return vn(s['v'])
        if s['k'] == 'printf':
            return any(vn(a) for a in s['args'])
        return False
    return any(sn(s) for s in job['stmts'])


def classify(job, impl, spec, alone_ok=None):
    fi, ti, mi = parse_result(impl)
    fs, ts, ms = parse_result(spec)
    if alone_ok:
        return 'C19/carry-over-into-next-job'
    if fi == 'A':
        if has_nested(job):
            return 'C19/print-inside-printf-argument-call'
        return 'C19/run-aborts'
    if ti != ts:
        if ti.replace(' ', '') == ts.replace(' ', ''):
            if len(ti) < len(ts):
                return 'C19/separator-lost-between-prints'
            i = 0
            while i < len(ts) and ti[i] == ts[i]:
                i += 1
            while i > 0 and ti[i - 1] == ' ':
                i -= 1
            if i == 0 or ti[i - 1] == '\n':
                return 'C19/space-after-line-break'
            return 'C19/extra-separator'
        if ti.replace('\n', '') == ts.replace('\n', ''):
            return 'C19/line-break-differs'
        return 'C19/output-text-differs'
    if mi != ms:
        return 'C19/output-order'
    return 'C19/output-differs'


# ---------------------------------------------------------------------------
# T1: the str.format model against CPython

def py_parse_case(fmt):
    try:
        fields = list(pystring.Formatter().parse(fmt))
    except ValueError:
        return 'E'
    pieces = []
    lit_acc = ''
    count = 0
    for lit_text, name, spec, conv in fields:
        lit_acc += lit_text
        if name is not None:
            if lit_acc:
                pieces.append('L' + show_str(lit_acc))
                lit_acc = ''
            if conv is not None or '{' in spec or '[' in name:
                return 'U'
            pieces.append('F' + show_str(name) + show_str(spec))
            if len(name) == 0 or name.isdecimal():
                count += 1
    if lit_acc:
        pieces.append('L' + show_str(lit_acc))
    return 'P' + ''.join(p + ',' for p in pieces) + '#%d' % count


def py_format_case(fmt, args, kw):
    try:
        return 'O' + show_str(fmt.format(*args, **kw))
    except (ValueError, TypeError, IndexError, KeyError, AttributeError):
        return 'E'


def gen_format_cases(rng, n, dist):
    g = Gen(rng, dist)
    g.regs = {'hue': 120, 'saturation': 50.5, 'kelvin': 2700}
    g.vars = {'x': 100, 'y': 2.5, 'the_light': 'Top', 'flag': True, 'none_var': None}
    cases = []
    weird_specs = ['05d', '+d', ',d', '_d', 'x', 'X', 'b', 'o', 'e', 'g', '%', 'n', 'c', '.3', '.3s', '*>5', '=5', '0', '#x', ' d', '-5',
                   '5.', '.f', '>', '<', '^', '>>5', '10.3', 'ss', 'dd', '5d5', 'F', '1000', '0.2f', '.0f', '.20f', '.15f', '3.0f']
    for i in range(n):
        fmt, args, names = g.format_string(nested_ok=False, bad_types=(i % 4 == 0))
        vals = [a['expect'] for a in args]
        r = rng.random()
        if r < 0.08:
            # a syntactically odd format: insert / delete braces and markers
            pos = rng.randrange(0, len(fmt) + 1)
            fmt = fmt[:pos] + rng.choice(['{', '}', '{{', '}}', '!r', '!', ':', '{}', '{0}', '{x.real}', '{x[0]}', '{:{}}', '[', '.']) + fmt[pos:]
        elif r < 0.16:
            fmt = fmt.replace(':', ':' + rng.choice(weird_specs), 1) if ':' in fmt else fmt + '{:%s}' % rng.choice(weird_specs)
        elif r < 0.20:
            vals = vals[:-1] if vals else vals + [1]
        elif r < 0.24:
            vals = vals + [rng.choice([7, 'extra'])]
        fmt = fmt.replace('\\n', '\n') if rng.random() < 0.7 else fmt
        kw = dict(g.regs)
        kw.update(g.vars)
        if rng.random() < 0.1:
            kw.pop(rng.choice(sorted(kw)))
        cases.append((fmt, vals, kw))
    # boundary floats for the fixed-point rendering
    specials = [0.5, 1.5, 2.5, 0.125, 0.375, 2.675, 1.005, 1e-7, 123456789.125, 0.1, 0.2, 0.30000000000000004, 1e22, 5e-324,
                1.7976931348623157e308, -0.0, 0.0, -2.5, -0.001, 999.9995, 0.045, 8.345, 1e16, 123456789012345680.0]
    for x in specials:
        for p in (0, 1, 2, 3, 6, 10, 17):
            cases.append(('{:.%df}|{:>12.%df}|{}' % (p, p), [x, x, x], {}))
    for n_ in (0, 1, -1, 7, -7, 12345, 2 ** 53 - 1, 2 ** 53, -(2 ** 53), 10 ** 20, True, False):
        cases.append(('{:.2f}|{:d}|{:>8}|{:<8d}|{:^9}|{}', [n_] * 6, {}))
    return cases


def format_tie(ctx, dist):
    rng = ctx.rng
    n = 40000 if ctx.thorough() else 2500
    cases = gen_format_cases(rng, n, dist)
    ok_cases = []
    too_long = 0
    import re as _re
    for fmt, vals, kw in cases:
        if not is_ascii(fmt):
            continue
        # evaluation bound (not a modelling bound): widths / precisions in the thousands make
        # vm_compute recurse that deep
        if any(int(d) > 1200 for d in _re.findall(r'\d+', fmt)):
            too_long += 1
            continue
        terms = [coq_oval(v) for v in vals]
        kwt = [(k, coq_oval(v)) for k, v in sorted(kw.items())]
        if any(t is None for t in terms) or any(t is None for _, t in kwt):
            continue
        ok_cases.append((fmt, vals, kw, '(%s, %s, %s)' % (coq_str(fmt), coq_list(terms),
                                                          coq_list(['(%s, %s)' % (coq_str(k), t) for k, t in kwt]))))
    # parse + count
    files = ['Eval vm_compute in (parse_cases %s).\n' % coq_list([coq_str(c[0]) for c in part]) for part in chunks(ok_cases, 400)]
    files += ['Eval vm_compute in (format_cases %s).\n' % coq_list([c[3] for c in part]) for part in chunks(ok_cases, 250)]
    res = common.run_cases('c19fmt', SPEC_IMPORT, files)
    nparse = len(chunks(ok_cases, 400))
    got_parse, got_fmt = [], []
    for i, (ok, strs, log) in enumerate(res):
        if not ok or len(strs) != 1:
            ctx.broken_tie('correspondence', 'format-model evaluation', log[-1200:])
            return
        (got_parse if i < nparse else got_fmt).extend(strs[0].split(';')[:-1])
    stats = {'parse_ok': 0, 'parse_error': 0, 'parse_unsupported': 0, 'format_ok': 0, 'format_error': 0, 'format_unsupported': 0}
    bad = 0
    for (fmt, vals, kw, _), gp, gf in zip(ok_cases, got_parse, got_fmt):
        ctx.count(2)
        pp = py_parse_case(fmt)
        if gp == 'U' or pp == 'U':
            stats['parse_unsupported'] += 1
            # the model may call unsupported what Python rejects or accepts; Python 'U' (conversion,
            # nested, index) must be 'U' or 'E' in the model
            if pp == 'U' and gp not in ('U', 'E'):
                bad += 1
                if bad <= 3:
                    ctx.broken_tie('correspondence', 'Formatter.parse vs parse_format', {'format': fmt, 'python': pp, 'model': gp})
        else:
            stats['parse_error' if pp == 'E' else 'parse_ok'] += 1
            if pp != gp:
                bad += 1
                if bad <= 3:
                    ctx.broken_tie('correspondence', 'Formatter.parse vs parse_format', {'format': fmt, 'python': pp, 'model': gp})
        pf = py_format_case(fmt, vals, kw)
        if gf == 'U':
            stats['format_unsupported'] += 1
        else:
            stats['format_error' if pf == 'E' else 'format_ok'] += 1
            if pf != gf:
                bad += 1
                if bad <= 6:
                    ctx.broken_tie('correspondence', 'str.format vs py_format', {'format': fmt, 'values': [repr(v) for v in vals], 'python': pf, 'model': gf})
            elif pf != 'E':
                ctx.nontriv(('fmt', fmt, tuple(repr(v) for v in vals)))
    stats['disagreements'] = bad
    stats['skipped_width_over_1200'] = too_long
    ctx.extra['format_model_tie'] = stats


# ---------------------------------------------------------------------------
# the main stream

def gen_cases(ctx, dist):
    rng = ctx.rng
    n = 20000 if ctx.thorough() else 600
    cases = corpus()
    while len(cases) < n:
        r = rng.random()
        nested_ok = rng.random() < 0.5
        first = gen_job(rng, dist, nested_ok=nested_ok, bad_types=(rng.random() < 0.15))
        case = [first]
        if r < 0.30:
            case.append(gen_job(rng, dist, n_stmts=rng.choice([1, 1, 2, 3]), nested_ok=False))
        elif r < 0.38:
            again = dict(first)
            again['again'] = True
            case.append(again)
            case.append(gen_job(rng, dist, n_stmts=1, nested_ok=False))
        cases.append(case)
    dist['jobs_per_case'] = {}
    for c in cases:
        k = str(len(c))
        dist['jobs_per_case'][k] = dist['jobs_per_case'].get(k, 0) + 1
    return cases


def check_cases(ctx, cases, model_ok, tag='c19'):
    """Runs the cases, evaluates specification and model, reports.  Returns per-case status."""
    observed = []
    for case in cases:
        try:
            obs = run_case(case)
        except Exception:
            ctx.broken_tie('harness', 'run_case', traceback.format_exc()[-2000:])
            continue
        observed.append((case, obs))
    terms, njobs, kept = [], [], []
    skipped = {'unsupported': 0, 'compile-rejected': 0}
    value_mismatch = []
    for case, obs in observed:
        bad = False
        for job, o in zip(case, obs):
            if o['raised']:
                ctx.counterexample('C19/run-raises', 'running the script raises %s' % o['raised'],
                                   {'case': case_payload(case), 'trace': o.get('trace')})
                bad = True
            elif not o['compile_ok']:
                ctx.counterexample('C19/valid-script-rejected', 'a well-formed output script is rejected: %s' % o.get('errors', '').strip()[:200],
                                   {'case': case_payload(case)})
                skipped['compile-rejected'] += 1
                bad = True
        if bad:
            continue
        try:
            term, mm = case_term(case, obs)
        except Unsupported:
            skipped['unsupported'] += 1
            continue
        value_mismatch += mm
        terms.append(term)
        njobs.append(len(case))
        kept.append((case, obs))
    ctx.extra.setdefault('skipped', {})
    for k, v in skipped.items():
        ctx.extra['skipped'][k] = ctx.extra['skipped'].get(k, 0) + v
    for mmv in value_mismatch:
        # a literal written in the script is the value that is written out: no computation lies between (print "mac" writes mac,
        # whatever else is called mac)
        if len(mmv) > 3 and mmv[3].startswith('literal-'):
            ctx.counterexample('C19/literal-written-as-something-else', 'the literal %s is handed to the output as %s' % (mmv[0], mmv[2]),
                               {'source': mmv[0], 'expected': mmv[1], 'observed': mmv[2]})
    if value_mismatch:
        ctx.extra.setdefault('value_differs_from_python_semantics', [])
        ctx.extra['value_differs_from_python_semantics'] += value_mismatch[:5]
    if not terms:
        return []
    spec = eval_cases(tag + 's', SPEC_IMPORT, 'spec_cases', terms, njobs)
    model = eval_cases(tag + 'm', MODEL_IMPORT, 'model_cases', terms, njobs) if model_ok else None
    status = []
    failing = []
    for ci, (case, obs) in enumerate(kept):
        case_ok = True
        for ji, (job, o) in enumerate(zip(case, obs)):
            ctx.count()
            sp = spec[ci][ji]
            impl = o['result']
            if sp != 'N':
                ctx.extra['oracle_jobs'] = ctx.extra.get('oracle_jobs', 0) + 1
                if parse_result(impl)[1] or parse_result(impl)[2]:
                    ctx.nontriv(('job', o['src']))
                if impl != sp:
                    case_ok = False
                    failing.append((ci, ji))
            else:
                ctx.extra['outside_spec_jobs'] = ctx.extra.get('outside_spec_jobs', 0) + 1
            if model is not None and impl != model[ci][ji]:
                case_ok = False
                n_bad = ctx.extra.get('model_disagreements', 0) + 1
                ctx.extra['model_disagreements'] = n_bad
                if n_bad <= 3:
                    ctx.broken_tie('correspondence', 'stdout text vs model',
                                   {'scripts': [job_source(j) for j in case], 'job': ji, 'implementation': impl, 'model': model[ci][ji]})
        status.append(case_ok)
    # classification: which single candidate repair makes the model agree with the specification
    variants = {}
    if failing and model_ok:
        cis = sorted({ci for ci, _ in failing})[:250]
        try:
            res = eval_cases(tag + 'v', MODEL_IMPORT, 'variant_cases', [terms[ci] for ci in cis],
                             [len(REPAIR_GROUPS) * njobs[ci] for ci in cis], per_file=25)
            variants = dict(zip(cis, res))
        except RuntimeError:
            variants = {}
    for ci, ji in failing:
        case, obs = kept[ci]
        job, o, sp, impl = case[ji], obs[ji], spec[ci][ji], obs[ji]['result']
        sig = None
        if ci in variants and model is not None and impl == model[ci][ji]:
            # the model of this tree explains the output; name the repair that removes the difference
            n = njobs[ci]
            for k, g in enumerate(REPAIR_GROUPS):
                if variants[ci][k * n + ji] == sp:
                    sig = GROUP_SIGS[g]
                    break
        if sig is None:
            alone_ok = None
            if ji > 0:
                try:
                    alone_ok = (run_case([dict(job, again=False)])[0]['result'] == sp)
                except Exception:
                    alone_ok = None
            sig = classify(job, impl, sp, alone_ok)
        if any(c['sig'] == sig for c in ctx.counterexamples):
            continue
        fi, ti, mi = parse_result(impl)
        fs, ts, ms = parse_result(sp)
        what = 'job %d of %s writes %r%s, the specification says %r' % (
            ji + 1, [job_source(j).strip().replace('\n', ' ; ') for j in case][:ji + 1],
            ti, ' and aborts' if fi == 'A' else '', ts)
        if ti == ts and mi != ms:
            what += ' (order relative to device commands: %s vs %s)' % (mi, ms)
        ctx.counterexample(sig, what, {'case': case_payload(case), 'job': ji, 'expected': sp, 'actual': impl})
    return status


def case_payload(case):
    def clean(o):
        if isinstance(o, dict):
            return {k: clean(v) for k, v in o.items()}
        if isinstance(o, (list, tuple)):
            return [clean(v) for v in o]
        if o is UNKNOWN:
            return '?'
        return o
    return {'scripts': [job_source(j) for j in case], 'structure': clean(case)}


def shrink(ctx, model_ok):
    """Minimise the first counterexample of each signature by deleting statements."""
    for c in list(ctx.counterexamples)[:4]:
        inp = c['replay']
        if not isinstance(inp, dict) or 'case' not in inp:
            continue
        case = inp['case']['structure']
        best = case
        for _ in range(12):
            cands = []
            for ji, job in enumerate(best):
                for si in range(len(job['stmts'])):
                    if job['stmts'][si]['k'] == 'other':
                        continue
                    nj = dict(job, stmts=job['stmts'][:si] + job['stmts'][si + 1:])
                    cands.append(best[:ji] + [nj] + best[ji + 1:])
                if len(best) > 1 and not job.get('again') and not (ji + 1 < len(best) and best[ji + 1].get('again')):
                    cands.append(best[:ji] + best[ji + 1:])
                if job['prelude']:
                    cands.append(best[:ji] + [dict(job, prelude=[])] + best[ji + 1:])
                    if len(job['prelude']) > 1:
                        for pi in range(len(job['prelude'])):
                            cands.append(best[:ji] + [dict(job, prelude=job['prelude'][:pi] + job['prelude'][pi + 1:])] + best[ji + 1:])
            cands = [cd for cd in cands if any(s['k'] != 'other' for j in cd for s in j['stmts'])][:60]
            if not cands:
                break
            sub = common.Ctx(ctx.prop, ctx.tier, ctx.seed)
            sub.extra = {}
            found = None
            try:
                status = check_cases(sub, cands, model_ok, tag='c19k')
            except Exception:
                break
            sigs = {}
            for cc in sub.counterexamples:
                sigs.setdefault(cc['sig'], cc)
            if c['sig'] in sigs:
                found = sigs[c['sig']]
            if not found:
                break
            best = found['replay']['case']['structure']
            c['what'] = found['what']
            c['replay'] = found['replay']
    return


def malformed_stream(ctx, dist):
    """Malformed / unsupported format strings through the real compiler and VM."""
    from bardolph.parser.parse import Parser
    rng = ctx.rng
    fixed = ['{', '}', '{0}{}', '{}{0}', '{1}', '{0} {0}', '{zz}', '{:q}', '{:05d}', '{!r}', '{x!r}', '{x!s:>5}', '{:{}}', '{hue.real}',
             '{0.real}', '{-1}', '{ }', 'a}b', 'a{b', '{{', '}}', '{{}', '{}}', '{:}', '{::}', '{:>}', '{:d', '{x', '{!', '{!r', '{[0]}', '{a[0]}',
             '{:.2}', '{:,}', '{:e}', '{:%}', '{:s}', '{:d}', '{:.f}', '{99999999999999999999}', '{00}', '{0x}', '{:>99999}', '{\\n}', '{:\\n}']
    gen = []
    g = Gen(rng, {})
    g.regs = {'hue': 120}
    g.vars = {'x': 5}
    alphabet = ['{', '}', '{', '}', ':', '!', 'r', 'd', 'x', '0', '1', '.', '[', ']', ' ', 'a', '>', '5', 'f', '\\n', 'hue']
    for _ in range(1500 if ctx.thorough() else 160):
        gen.append(''.join(rng.choice(alphabet) for _ in range(rng.randrange(1, 9))))
    out = {'compile_error': 0, 'clean_run': 0, 'run_aborted': 0, 'parser_raised': 0, 'execute_raised': 0, 'examples': {}}
    import tests_env
    from bardolph.controller.script_job import ScriptJob
    for fmt in fixed + gen:
        if '"' in fmt:
            continue
        try:
            k = sum(1 for f in pystring.Formatter().parse(fmt) if f[1] is not None and (len(f[1]) == 0 or f[1].isdecimal()))
        except ValueError:
            k = rng.choice([0, 1])
        vals = [rng.choice(['1', '2.5', '"s"', 'x', 'hue', '{1 < 2}']) for _ in range(k)]
        src = 'hue 120 assign x 5\nprintf "%s"%s\nprint 1\n' % (fmt, ''.join(' ' + v for v in vals))
        ctx.count()
        tests_env.configure(output='stdout')
        kind = None
        p = Parser()
        try:
            ok = p.parse(src)
        except Exception as ex:
            kind = 'parser_raised'
            detail = '%s: %s' % (type(ex).__name__, ex)
            ok = False
        if kind is None and not ok:
            kind = 'compile_error'
            detail = str(p.get_errors()).strip()[:120]
        if kind is None:
            with Instrument() as inst:
                try:
                    sj = ScriptJob.from_string(src)
                    sj.execute()
                    m = sj._machine
                    kind = 'run_aborted' if m._reg.pc < len(m._program) else 'clean_run'
                    detail = inst.rec.so_far()
                except Exception as ex:
                    kind = 'execute_raised'
                    detail = '%s: %s' % (type(ex).__name__, ex)
            if kind == 'execute_raised':
                ctx.counterexample('C19/run-raises', 'running %r raises %s' % (src, detail), {'script': src})
        out[kind] += 1
        if len(out['examples'].setdefault(kind, [])) < 4:
            out['examples'][kind].append({'format': fmt, 'outcome': detail})
    ctx.extra['malformed_format_stream'] = out
    if out['parser_raised']:
        ctx.notes.append('malformed printf formats: %d exceptions escaped Parser.parse (D13, property C06; repaired by candidate fix 0021), e.g. %r'
                         % (out['parser_raised'], out['examples']['parser_raised'][0]))
        ctx.extra['notes'] = ctx.notes


def probes(ctx):
    """Reading questions, reported in the evidence only."""
    res = {}
    for name, src in [
        ('variable-named-like-internal-register', 'assign power 5 printf "{power}"'),
        ('variable-named-pc', 'assign pc 5 printf "{pc}"'),
        ('register-name-is-case-insensitive', 'hue 120 printf "{Hue}"'),
        ('macro-as-named-field', 'define m 5 printf "{m}"'),
        ('undefined-name', 'printf "{never_assigned}"'),
        ('docs-say-printf-appends-line-feed', 'printf "{}" 1 printf "{}" 2'),
        ('string-literal-equal-to-a-mark', 'print "{"'),
        ('bare-println-swallows-register-statement', 'println\nhue 5\nprint 1'),
    ]:
        try:
            o = run_case([{'prelude': [], 'stmts': [{'k': 'other', 'src': src}], 'again': False}])[0]
            res[name] = {'script': src, 'stdout': o['text'], 'aborted': o['aborted'], 'compiled': o['compile_ok']}
        except Exception as ex:
            res[name] = {'script': src, 'error': str(ex)}
    ctx.extra['probes_not_counted'] = res


def run(ctx):
    ctx.rule = ('cases = 1-3 jobs of generated print/println/printf/device statements run with the production stdout binding; '
                'an evaluation = one job compared (or one format string / one format call in the str.format tie); a job is '
                'non-trivial when the specification speaks about it and it writes at least one byte or issues a device command; '
                'a format call is non-trivial when both sides produce text; distinct = distinct script / (format, values)')
    ctx.assumptions += ['ASCII texts only', 'float values: str(x) is taken as data (shortest round-trip printing is not modelled), '
                        'fixed-point renderings are computed in Coq from the binary64 value',
                        'the order of OUT and device instructions inside one job is the VM\'s (C01); C19 checks the io model against it on the log',
                        'modelled str.format subset: header of coq/Io/Format.v; everything else is excluded from the comparison and only checked for clean outcomes']
    ctx.trusted += ['tools/gen_output.py (text comparison of the modelled methods)', 'harness instrumentation of VmIo.out and FakeLightApi']
    model_ok = ctx.model_runnable
    dist = {}
    # configuration the model runs under (read from the source)
    if model_ok:
        res = common.run_cases('c19cfg', MODEL_IMPORT, ['Eval vm_compute in show_cfg.\n'])
        if res[0][0] and res[0][1]:
            names = ['one_sink', 'out_tracks_newline', 'sink_flush_forgets', 'reset_flushes_sink', 'flush_flushes_sink',
                     'print_takes_last', 'printf_takes_last_k', 'machine_reset_io', 'source_known']
            ctx.extra['source_configuration'] = dict(zip(names, [c == 'T' for c in res[0][1][0]]))
            if not ctx.extra['source_configuration'].get('source_known'):
                ctx.broken_tie('correspondence', 'source text not one of the accepted texts (gen_output.py)',
                               open(common.COQ + '/Gen/OutputGen.v').read()[-2500:])
    ctx.stage('config')
    format_tie(ctx, dist)
    ctx.stage('format-tie')
    cases = gen_cases(ctx, dist)
    ctx.stage('generate')
    per = 4000
    for part in chunks(cases, per):
        check_cases(ctx, part, model_ok)
    ctx.stage('cases')
    for case in cases[:2] + cases[40:43]:
        ctx.sample({'scripts': [job_source(j) for j in case]})
    if ctx.counterexamples:
        shrink(ctx, model_ok)
        ctx.stage('shrink')
    malformed_stream(ctx, dist)
    ctx.stage('malformed')
    probes(ctx)
    ctx.extra['distribution'] = dist
    ctx.extra['cases'] = len(cases)


def replay(ctx, payload):
    inp = payload.get('input', {})
    if 'case' in inp:
        case = inp['case']['structure']
        obs = run_case(case)
        term, _ = case_term(case, obs)
        spec = eval_cases('c19rp', SPEC_IMPORT, 'spec_cases', [term], [len(case)])[0]
        ok = True
        for ji, (o, sp) in enumerate(zip(obs, spec)):
            print('job %d: %s' % (ji + 1, o['src'].strip().replace('\n', ' ; ')))
            print('   implementation %s' % o['result'])
            print('   specification  %s' % sp)
            if sp != 'N' and sp != o['result']:
                ok = False
        return ok
    if 'script' in inp:
        obs = run_case([{'prelude': [], 'stmts': [{'k': 'other', 'src': inp['script']}], 'again': False}])
        print(obs[0]['result'], obs[0]['raised'])
        return obs[0]['raised'] is None
    return False
