"""C20 -- the web front end runs only the manifest's scripts, escaped, without duplicates.

The real web/web_app.py + web/front_end.py + bardolph/lib/job_control.py + ScriptJob run
against a stub of the Flask API (harness/flask_stub.py); job threads are real but each job
waits at a gate until the history says it completes, so every run is deterministic.

Ties checked on every run:
  V   translator-validation style sweeps: html.escape vs Web.Html.html_escape (and the
      specification's decoder / well-escapedness test), str.title / str.lower / the ".ls"
      suffix rule / the title derivation vs their models, URL resolution of the stub (the
      blueprint's recorded rules) vs the model's resolver and the specification's classifier;
  T   correspondence: per request, the jobs handed to JobControl (with the file opened for
      each), the stop requests, clear_queue, the capture file, the template and the whole
      template context (script fields, running flags, message, agent class, status lists)
      or the exception type, vs the Coq model evaluated on the same manifest and history;
  O   oracle: the same observations vs the Coq specification (Web/WebSpec.v): effects must be
      exactly the prescribed ones; every script object handed to a page must be a listed one,
      escaped, with the right running flag; status and capture must render.
"""
import html
import json
import os
import shutil
import tempfile
import threading
import time

import common
from common import coq_str, coq_list, coq_bool

MODEL_TARGETS = ['Run/C20Model.vo']
EXTRA_TARGETS = ['Run/C20Spec.vo', 'Run/C20Model.vo']

IMPORTS_SPEC = 'From Bardolph Require Import Web.WebSpec Run.C20Spec.'
IMPORTS_MODEL = 'From Bardolph Require Import Web.WebSpec Web.WebApp Run.C20Spec Run.C20Model.'

META = '&<>"\''
AGENTS = ['Mozilla/5.0 (X11; Linux x86_64)', 'Mozilla/5.0 (iPhone; CPU iPhone OS 17_0)', 'Dalvik/2.1 (Linux; Android 14)',
          'Mozilla/5.0 (SMART-TV; Linux; Tizen) SmartTV Safari', 'curl/8.5.0', '', 'ANDROID smarttv']
SCRIPTS = ['on all\n', 'off all\n', 'hue 120 saturation 50 brightness 25 kelvin 2700 set all\n', '',
           'duration 1 on all\n', 'this is not a script @@\n']
SCRIPT_DIR = os.path.join('d1', 'd2', 'scripts')   # relative to the case directory (the server's cwd)


# ---------------------------------------------------------------------------
# generators

def hostile_string(rng, lo=0, hi=10, slash=True, ctl=True):
    alpha = 'abXY09_-. ' * 2 + META * 3 + ';#%\\=:+@'
    if slash:
        alpha += '//'
    n = rng.randint(lo, hi)
    s = ''.join(rng.choice(alpha) for _ in range(n))
    if ctl and rng.random() < 0.05:
        k = rng.randrange(len(s) + 1)
        s = s[:k] + rng.choice('\t\x01\x7f') + s[k:]
    return s


def simple_name(rng):
    words = ['on', 'off', 'all', 'fade', 'night', 'light', 'cycle', 'x', 'reading', 'b2']
    k = rng.choice([1, 1, 2, 3])
    return rng.choice(['-', '_', '-']).join(rng.choice(words) for _ in range(k))


def gen_file_name(rng, root_abs):
    r = rng.random()
    if r < 0.30:
        base = simple_name(rng)
    elif r < 0.70:
        base = hostile_string(rng, 1, 8, slash=False, ctl=False)
    elif r < 0.80:
        base = rng.choice(['sub', 'a&b', 's p', '..']) + '/' + hostile_string(rng, 1, 6, slash=False, ctl=False)
    elif r < 0.85:
        base = '../' + hostile_string(rng, 1, 6, slash=False, ctl=False)
    elif r < 0.90:
        base = os.path.join(root_abs, 'abs', hostile_string(rng, 1, 6, slash=False, ctl=False))
    elif r < 0.95:
        base = ''
    else:
        base = hostile_string(rng, 0, 8, slash=True, ctl=True)
    suffix = rng.choice(['.ls'] * 6 + ['', '.ls.ls', '.LS', '.l', 'ls', '.ls '])
    if base == '' and rng.random() < 0.7:
        return ''
    return base + suffix


SPECIAL_PATHS = ['off', 'stop-current', 'stop-all', 'capture', 'status', 'stop']


def gen_manifest(rng, root_abs):
    n = rng.choice([0, 1, 2, 2, 3, 3, 4, 4, 5, 6])
    entries = []
    for _ in range(n):
        e = {'file_name': gen_file_name(rng, root_abs)}
        r = rng.random()
        if r < 0.35:
            pass                                   # path missing: derived from the file name
        elif r < 0.42:
            e['path'] = ''
        elif r < 0.60:
            e['path'] = rng.choice(SPECIAL_PATHS)
        elif r < 0.75:
            e['path'] = simple_name(rng)
        elif r < 0.85 and entries:
            other = rng.choice(entries)            # duplicate of an earlier entry's effective path
            e['path'] = effective_path(other)
            if e['path'] == '':
                del e['path']
        else:
            e['path'] = hostile_string(rng, 1, 8, slash=rng.random() < 0.2, ctl=True)
        r = rng.random()
        if r < 0.45:
            pass
        elif r < 0.55:
            e['title'] = ''
        elif r < 0.75:
            e['title'] = rng.choice(['All Off', 'On 5 Min.', 'Slow Cycle', 'All 33% Darker'])
        else:
            e['title'] = hostile_string(rng, 1, 12)
        r = rng.random()
        if r < 0.5:
            pass
        elif r < 0.8:
            e['run_background'] = True
        else:
            e['run_background'] = False
        e['background'] = rng.choice(['#222', 'Linen', 'rgb(64, 64, 64)', hostile_string(rng, 0, 10), '"><script>alert(1)</script>'])
        e['color'] = rng.choice(['Linen', '#222', 'white', hostile_string(rng, 0, 10), "red' onmouseover='x"])
        if rng.random() < 0.25:
            e['icon'] = rng.choice(['switch', 'litBulb', 'a<b', ''])
        entries.append(e)
    return entries


def effective_path(e):
    """The documented derivation, computed by the harness only to aim requests (never compared)."""
    p = e.get('path', '')
    if p == '':
        p = e['file_name']
        if p.endswith('.ls'):
            p = p[:-3]
    return p


def gen_files(rng, manifest):
    """{file name as in the manifest: script text or None (no such file)}."""
    files = {}
    for e in manifest:
        f = e['file_name']
        if f in files:
            continue
        files[f] = None if rng.random() < 0.12 else rng.choice(SCRIPTS)
    return files


def requestable(p):
    return p != '' and '/' not in p


def gen_events(rng, manifest):
    paths = [effective_path(e) for e in manifest]
    good = [p for p in paths if requestable(p)]
    bg_names = [html.escape(effective_path(e)) for e in manifest if e.get('run_background')]
    n = rng.randint(6, 28)
    evs = []
    for _ in range(n):
        r = rng.random()
        ua = rng.choice(AGENTS)
        if r < 0.34 and good:
            evs.append(['R', '/' + rng.choice(good), ua])
        elif r < 0.49 and good:
            evs.append(['R', '/stop/' + rng.choice(good), ua])
        elif r < 0.57:
            evs.append(['R', '/' + unlisted(rng, paths), ua])
        elif r < 0.61:
            evs.append(['R', '/stop/' + unlisted(rng, paths), ua])
        elif r < 0.76:
            evs.append(['R', rng.choice(['/', '/status', '/capture', '/off', '/stop-current', '/stop-all', '/stop-all', '/status']), ua])
        elif r < 0.81:
            junk = ['/a/b', '', 'x', '//', '/stop/', '/stop', '/stop/a/b', '/capture/', '/status/x', 'status', '/off/', '/ ']
            junk += ['/' + p for p in paths if not requestable(p)]
            evs.append(['R', rng.choice(junk), ua])
        elif r < 0.93:
            evs.append(['C'])
        else:
            names = bg_names + [html.escape(p) for p in paths] + ['nobody']
            evs.append(['B', rng.choice(names)])
    return evs


def unlisted(rng, paths):
    r = rng.random()
    if r < 0.3 and paths:
        p = rng.choice(paths)
        q = rng.choice([html.escape(p), html.unescape(p), p + 'x', p[:-1], p.upper(), p + '.ls'])
    elif r < 0.5:
        q = rng.choice(['index', 'static', 'favicon.ico', '__snapshot__', '..', '.', 'web'])
    else:
        q = hostile_string(rng, 1, 8, slash=False, ctl=False)
    q = q.replace('/', '')
    return q if q else 'zz'


# ---------------------------------------------------------------------------
# Coq terms

def coq_opt_str(d, k):
    return '(Some %s)' % coq_str(d[k]) if k in d else 'None'


def coq_entry(e):
    bg = '(Some %s)' % coq_bool(e['run_background']) if 'run_background' in e else 'None'
    return '(mk_entry %s %s %s %s %s %s %s)' % (coq_str(e['file_name']), coq_opt_str(e, 'path'), coq_opt_str(e, 'title'), bg,
                                               coq_str(e['background']), coq_str(e['color']), coq_opt_str(e, 'icon'))


def coq_event(ev):
    if ev[0] == 'R':
        return '(Request %s %s)' % (coq_str(ev[1]), coq_str(ev[2]))
    if ev[0] == 'C':
        return 'DoneCurrent'
    return '(DoneBackground %s)' % coq_str(ev[1])


def eval_json(tag, imports, bodies, what):
    """Run files of `Eval vm_compute in (...)` commands; every printed string is JSON.
    The results are written to files with `Redirect` and read back from there: run_cases
    collects a process's standard output only after it has exited, so a shard printing
    more than a pipe buffer (64 KB) would block until its timeout."""
    outdir = tempfile.mkdtemp(prefix='c20out_')
    try:
        redirected, counts = [], []
        for i, body in enumerate(bodies):
            parts = body.split('Eval vm_compute in')
            text = parts[0]
            for k, rest in enumerate(parts[1:]):
                text += 'Redirect "%s/f%d_%d" Eval vm_compute in' % (outdir, i, k) + rest
            redirected.append(text)
            counts.append(len(parts) - 1)
        res = common.run_cases(tag, imports, redirected)
        out = []
        for i, (ok, strs, log) in enumerate(res):
            if not ok:
                lines = log.splitlines()
                errs = [j for j, l in enumerate(lines) if 'Error' in l]
                where = ('\n'.join(l[:400] for l in lines[max(0, errs[0] - 2):errs[0] + 6]) if errs
                         else '(no error message: killed or timed out) ...' + log[-300:])
                raise RuntimeError('coq evaluation of %s failed: %s' % (what, where))
            vals = []
            for k in range(counts[i]):
                with open('%s/f%d_%d.out' % (outdir, i, k)) as f:
                    got = common.parse_eval_strings(f.read())
                if len(got) != 1:
                    raise RuntimeError('coq evaluation of %s: unreadable result file' % what)
                vals.append(json.loads(got[0]))
            out.append(vals)
        return out
    finally:
        shutil.rmtree(outdir, ignore_errors=True)


def chunks(l, n):
    return [l[i:i + n] for i in range(0, len(l), n)]


# ---------------------------------------------------------------------------
# the implementation under observation

class Harness:
    """Instrumentation installed once per process; `log` is the effect list of the
    request being served."""

    def __init__(self):
        self.installed = False
        self.log = []
        self.next_id = 0
        self.jobs = []           # every ScriptJob created in the current case
        self.bg_live = []        # [(name, agent)] background agents not yet released
        self.thread_errors = []
        self.script_dir = None

    def install(self):
        if self.installed:
            return
        import flask_stub
        flask_stub.install()
        from bardolph.controller.script_job import ScriptJob
        from bardolph.lib.job_control import JobControl
        from web import web_app
        H = self
        self.orig = {}

        orig_from_file = ScriptJob.from_file

        def from_file(file_name):
            job = orig_from_file(file_name)
            job._c20_file = file_name
            job._c20_gate = threading.Event()
            job._c20_id = None
            H.jobs.append(job)
            return job
        ScriptJob.from_file = staticmethod(from_file)

        orig_execute = ScriptJob.execute

        def execute(self):
            gate = getattr(self, '_c20_gate', None)
            if gate is not None and not gate.wait(60):
                H.thread_errors.append('gate timeout')
            return orig_execute(self)
        ScriptJob.execute = execute

        orig_request_stop = ScriptJob.request_stop

        def request_stop(self):
            H.log.append(['X', getattr(self, '_c20_id', None), getattr(self, '_c20_name', None), getattr(self, '_c20_file', None)])
            return orig_request_stop(self)
        ScriptJob.request_stop = request_stop

        orig_add = JobControl.add_job
        orig_spawn = JobControl.spawn_job

        def tag(job, name):
            job._c20_id = H.next_id
            job._c20_name = name
            H.next_id += 1

        def add_job(self, job, name=None):
            tag(job, name)
            H.log.append(['A', job._c20_id, name, getattr(job, '_c20_file', None)])
            return orig_add(self, job, name)

        def spawn_job(self, job, name):
            tag(job, name)
            H.log.append(['S', job._c20_id, name, getattr(job, '_c20_file', None)])
            agent = orig_spawn(self, job, name)
            H.bg_live.append((name, agent))
            return agent
        JobControl.add_job = add_job
        JobControl.spawn_job = spawn_job

        orig_clear = JobControl.clear_queue

        def clear_queue(self):
            H.log.append(['C'])
            return orig_clear(self)
        JobControl.clear_queue = clear_queue
        self.orig_clear = orig_clear

        orig_snapshot = web_app.WebApp.snapshot

        def snapshot(self, *a, **kw):
            r = orig_snapshot(self, *a, **kw)
            H.log.append(['P'])
            return r
        web_app.WebApp.snapshot = snapshot

        def hook(args):
            if args.exc_type is KeyError:
                H.thread_errors.append('KeyError in a job thread (background job registered twice under one name)')
            else:
                H.thread_errors.append('%s in a job thread: %s' % (args.exc_type.__name__, args.exc_value))
        threading.excepthook = hook
        import web.front_end as fe
        self.fe = fe
        self.flask = flask_stub
        self.installed = True

    # -- one case ----------------------------------------------------------
    def run_case(self, case_dir, manifest, files, events):
        """Returns (table, [obs]) where table = the script list of a fresh app (as views
        without running) and obs = [effects, page] per event, in the model's JSON shape."""
        import tests_env
        from bardolph.lib import injection
        from web import web_app, i_web
        os.makedirs(os.path.join(case_dir, 'web'))
        sdir = os.path.join(case_dir, SCRIPT_DIR)
        os.makedirs(sdir)
        with open(os.path.join(case_dir, 'web', 'm.json'), 'w') as f:
            json.dump(manifest, f)
        root = os.path.realpath(os.path.dirname(case_dir))
        for name, text in files.items():
            if text is None or name == '' or name.endswith('/'):
                continue
            target = os.path.join(sdir, name)
            if not os.path.realpath(target).startswith(root + os.sep):
                continue
            try:
                os.makedirs(os.path.dirname(target), exist_ok=True)
                with open(target, 'w') as f:
                    f.write(text)
            except OSError:
                pass
        cwd = os.getcwd()
        os.chdir(case_dir)
        self.log = []
        self.next_id = 0
        self.jobs = []
        self.bg_live = []
        obs = []
        try:
            tests_env.configure(extra_settings={'manifest_file_name': 'm.json', 'script_path': SCRIPT_DIR})
            app = web_app.WebApp()
            injection.bind_instance(app).to(i_web.WebApp)
            table = [self.view(s)[:7] + [False] for s in app.get_script_list()]
            jc = app._jobs
            for ev in events:
                self.log = []
                if ev[0] == 'R':
                    page = self.request(ev[1], ev[2])
                elif ev[0] == 'C':
                    agent = jc.get_current()
                    if agent is not None:
                        self.release(agent)
                    page = ['-']
                else:
                    for i, (name, agent) in enumerate(self.bg_live):
                        if name == ev[1]:
                            del self.bg_live[i]
                            self.release(agent)
                            break
                    page = ['-']
                obs.append([self.log, page])
            # wind down: nothing queued may start, everything running ends
            self.orig_clear(jc)
            self.log = []
            for job in self.jobs:
                job._c20_gate.set()
            deadline = time.time() + 20
            agents = [a for _, a in self.bg_live]
            cur = jc.get_current()
            if cur is not None:
                agents.append(cur)
            for a in agents:
                if a._thread is not None:
                    a._thread.join(max(0.1, deadline - time.time()))
            while jc.has_jobs() and time.time() < deadline:
                time.sleep(0.001)
            if jc.has_jobs():
                self.thread_errors.append('jobs did not end')
        finally:
            os.chdir(cwd)
        return table, obs

    def release(self, agent):
        agent.job._c20_gate.set()
        if agent._thread is not None:
            agent._thread.join(20)
            if agent._thread.is_alive():
                raise RuntimeError('job thread did not finish')

    def request(self, url, ua):
        try:
            page = self.flask.dispatch(self.fe.blueprint, url, {'User-Agent': ua})
        except self.flask.NotFound:
            return ['N']
        except Exception as ex:   # what Flask would answer with a 500
            return ['E', type(ex).__name__]
        ctx = page.context
        if page.template == 'index.html':
            return ['I', ctx['agent_class'], [self.view(s) for s in ctx['scripts']]]
        if page.template == 'action.html':
            return ['A', ctx['agent_class'], self.view(ctx['script']), ctx['message']]
        if page.template == 'status.html':
            d = ctx['data']
            cur = d['current_job']
            return ['S', ctx['agent_class'], [a.name for a in d['background_jobs']],
                    None if cur is None else cur.name, [a.name for a in d['queued_jobs']]]
        return ['?', page.template]

    @staticmethod
    def view(s):
        return [s.file_name, s.path, s.title, s.background, s.color, s.icon, s.run_background, s.running]


HARNESS = Harness()


# ---------------------------------------------------------------------------
# comparison

def full_file(f):
    return os.path.join(SCRIPT_DIR, f)


def norm_effects(effs):
    """Model / specification effects with the file joined to the script directory, as the
    implementation's from_file argument is."""
    out = []
    for e in effs:
        if e[0] in ('A', 'S', 'X'):
            out.append([e[0], e[1], e[2], full_file(e[3])])
        else:
            out.append(list(e))
    return out


def expand_model_page(tab, page):
    if page[0] == 'I':
        return ['I', page[1], [t[:7] + [b == '1'] for t, b in zip(tab, page[2])]]
    if page[0] == 'A':
        return ['A', page[1], tab[page[2]][:7] + [page[3]], page[4]]
    if page[0] in ('I?', 'A?'):
        return [page[0][0]] + page[1:]
    return page


def has_meta(s):
    return any(c in s for c in META)


def well_escaped(s):
    i = 0
    while i < len(s):
        c = s[i]
        if c in '<>"\'':
            return False
        if c == '&' and not any(s.startswith(e, i) for e in ('&amp;', '&lt;', '&gt;', '&quot;', '&#x27;')):
            return False
        i += 1
    return True


def route_of(url):
    hit = HARNESS.flask.resolve(HARNESS.fe.blueprint, url)
    return None if hit is None else hit[1].__name__


def classify_effect_difference(ev, want, got, page, manifest):
    """A stable signature for `the implementation's effects differ from the prescribed ones`.
    Returns (sig, what, state_diverged)."""
    url = ev[1]
    route = route_of(url)
    starts_w = [e for e in want if e[0] in 'AS']
    starts_g = [e for e in got if e[0] in 'AS']
    stops_w = [e for e in want if e[0] == 'X']
    stops_g = [e for e in got if e[0] == 'X']
    if route == 'status' and page[0] == 'E':
        return 'C20/status-raises', 'GET /status raises %s' % page[1], False
    if route == 'capture' and page[0] == 'E':
        return 'C20/capture-raises', 'GET /capture raises %s' % page[1], False
    if [e[:3] for e in want] == [e[:3] for e in got]:
        # same jobs, same order: only the file a job was made from differs
        w, g = [(a, b) for a, b in zip(want, got) if a != b][0]
        raw = w[3][len(SCRIPT_DIR) + 1:] if w[3].startswith(SCRIPT_DIR + os.sep) else w[3]
        if g[3] == full_file(html.escape(raw)) and has_meta(raw):
            return ('C20/wrong-file-for-escaped-name',
                    'GET %s starts the job of manifest file %r from file %r (the escaped name)' % (url, w[3], g[3]), False)
        return 'C20/wrong-file', 'GET %s starts the job of manifest file %r from file %r' % (url, w[3], g[3]), False
    if ([e[:3] for e in starts_w] == [e[:3] for e in starts_g] and stops_w != stops_g
            and [e for e in want if e[0] in 'CP'] == [e for e in got if e[0] in 'CP']):
        missing = [e for e in stops_w if e[:3] not in [x[:3] for x in stops_g]]
        extra = [e for e in stops_g if e[:3] not in [x[:3] for x in stops_w]]
        if missing and not extra:
            name = missing[0][2]
            if route == 'stop_script' and has_meta(html.unescape(name)):
                return ('C20/stop-misses-escaped-name',
                        'GET %s answers %r but the job named %r (running) is not asked to stop' % (url, page[-1] if page[0] == 'A' else page, name), False)
            return 'C20/stop-misses', 'GET %s does not ask job %r to stop' % (url, name), False
        if extra and not missing:
            return 'C20/stop-hits-other-job', 'GET %s asks job %r to stop, which it should not' % (url, extra[0][2]), False
        return 'C20/stop-hits-other-job', 'GET %s asks %r to stop instead of %r' % (url, [e[2] for e in stops_g], [e[2] for e in stops_w]), False
    if starts_g and not starts_w:
        paths = [effective_path(e) for e in manifest]
        p = url[1:]
        if route == 'run_script' and p not in paths:
            return 'C20/unlisted-path-started', 'GET %s (no manifest entry of that path) starts %r from file %r' % (url, starts_g[0][2], starts_g[0][3]), True
        if route == 'run_script':
            return 'C20/running-restarted', 'GET %s starts %r although it is reported as running' % (url, starts_g[0][2]), True
        return 'C20/unexpected-start', 'GET %s starts %r' % (url, starts_g[0][2]), True
    if starts_w and not starts_g:
        return 'C20/listed-path-not-started', 'GET %s does not start the listed script %r' % (url, starts_w[0][3]), True
    if starts_w and starts_g and [e[0] for e in starts_w] != [e[0] for e in starts_g]:
        return 'C20/background-flag-ignored', 'GET %s: %s instead of %s' % (url, starts_g[0][0], starts_w[0][0]), True
    if starts_w and starts_g and [e[2] for e in starts_w] != [e[2] for e in starts_g]:
        return 'C20/job-name', 'GET %s: job handed over as %r, the entry path gives %r' % (url, starts_g[0][2], starts_w[0][2]), True
    if ['C'] in want and ['C'] not in got:
        return 'C20/stop-all-keeps-queue', 'GET %s does not clear the queue' % url, True
    if ['P'] in want and ['P'] not in got:
        return 'C20/capture-writes-nothing', 'GET %s does not write the capture file' % url, False
    return 'C20/effects-differ', 'GET %s: effects %r, prescribed %r' % (url, got, want), True


def compare_case(ctx, idx, case, spec, model, stats):
    manifest, files, events = case['manifest'], case['files'], case['events']
    table, obs = case['impl']
    replay = {'manifest': manifest, 'files': files, 'events': events}
    # ---- oracle ----
    spec_views, spec_obs = spec
    by_path = {}
    for v in spec_views:
        by_path[v[1]] = v
    diverged = False
    for k, (ev, (got_eff, page), so) in enumerate(zip(events, obs, spec_obs)):
        if diverged:
            break
        ctx.count()
        want = norm_effects(so[0])
        if want != got_eff:
            if ev[0] != 'R':
                ctx.counterexample('C20/completion-effects', 'a job completion has effects %r' % got_eff, dict(replay, step=k))
                diverged = True
                continue
            sig, what, div = classify_effect_difference(ev, want, got_eff, page, manifest)
            ctx.counterexample(sig, what, dict(replay, step=k, prescribed=want, observed=got_eff, page=page))
            diverged = div
        if ev[0] != 'R':
            continue
        if so[2] and page[0] not in ('I', 'A', 'S'):
            route = route_of(ev[1])
            ctx.counterexample('C20/%s-raises' % route, 'GET %s raises %s' % (ev[1], page[1] if len(page) > 1 else page),
                               dict(replay, step=k, page=page))
        views = page[2] if page[0] == 'I' else [page[2]] if page[0] == 'A' else []
        running = dict((v[1], b == '1') for v, b in zip(spec_views, so[1]))
        for v in views:
            sv = by_path.get(v[1])
            if sv is None:
                bad = [f for f in v[:5] if isinstance(f, str) and not well_escaped(f)]
                if bad:
                    ctx.counterexample('C20/unescaped-field', 'GET %s hands a page the string %r' % (ev[1], bad[0]),
                                       dict(replay, step=k, view=v))
                else:
                    ctx.counterexample('C20/page-has-unlisted-script', 'GET %s hands a page a script object of path %r' % (ev[1], v[1]),
                                       dict(replay, step=k, view=v))
                continue
            for name, a, b in zip(('file_name', 'path', 'title', 'background', 'color'), v[:5], sv[:5]):
                if a != b:
                    if not well_escaped(a):
                        ctx.counterexample('C20/unescaped-field',
                                           'GET %s hands a page %s = %r, not HTML-escaped (should be %r)' % (ev[1], name, a, b),
                                           dict(replay, step=k, field=name, observed=a, prescribed=b))
                    else:
                        ctx.counterexample('C20/field-differs', 'GET %s hands a page %s = %r, should be %r' % (ev[1], name, a, b),
                                           dict(replay, step=k, field=name, observed=a, prescribed=b))
            if not diverged and v[7] != running.get(v[1]):
                ctx.counterexample('C20/running-flag', 'GET %s reports %r as running=%r' % (ev[1], v[1], v[7]),
                                   dict(replay, step=k, view=v))
    # ---- branch statistics (from the specification's run) ----
    nontrivial = 0
    for ev, (got_eff, page), so in zip(events, obs, spec_obs):
        if ev[0] != 'R':
            key = 'done-current' if ev[0] == 'C' else 'done-background'
        else:
            route = route_of(ev[1]) or 'no-route'
            kinds = ''.join(e[0] for e in so[0])
            key = route + ':' + (kinds or '-')
            if route in ('run_script', 'stop_script'):
                listed = ev[1].split('/')[-1] in [effective_path(e) for e in manifest]
                key += ':listed' if listed else ':unlisted'
                if route == 'run_script' and listed and not kinds:
                    nontrivial += 1          # running, not restarted
                if route == 'stop_script' and kinds:
                    nontrivial += 1
            if page[0] == 'E':
                key += ':raises'
        stats[key] = stats.get(key, 0) + 1
    if nontrivial and any(e[0] in 'AS' for o in obs for e in o[0]):
        ctx.nontriv(idx)
    # ---- correspondence ----
    if model is not None:
        mtab, mresp = model
        if mtab != table:
            if stats.get('_corr_reported', 0) < 3:
                ctx.broken_tie('correspondence', 'script table vs model', {'manifest': manifest, 'implementation': table, 'model': mtab})
            stats['_corr_reported'] = stats.get('_corr_reported', 0) + 1
            return
        for k, (ev, (got_eff, page), mr) in enumerate(zip(events, obs, mresp)):
            want = [norm_effects(mr[0]), expand_model_page(mtab, mr[1])]
            if want != [got_eff, page]:
                if stats.get('_corr_reported', 0) < 3:
                    ctx.broken_tie('correspondence', 'request/completion vs model',
                                   {'manifest': manifest, 'files': files, 'events': events[:k + 1], 'step': k,
                                    'implementation': [got_eff, page], 'model': want})
                stats['_corr_reported'] = stats.get('_corr_reported', 0) + 1
                break


# ---------------------------------------------------------------------------
# validation sweeps on plain strings

def random_ascii(rng, n):
    out = []
    alpha_meta = META * 4 + 'ab;#x27 &amp;&lt;&gt;&quot;'
    for i in range(n):
        k = rng.randint(0, 24)
        r = rng.random()
        if r < 0.4:
            s = ''.join(chr(rng.randrange(128)) for _ in range(k))
        elif r < 0.8:
            s = ''.join(rng.choice(alpha_meta) for _ in range(k))
        else:
            s = ''.join(rng.choice('abcXYZ _-.\'59') for _ in range(k))
        out.append(s)
    out += ['', '&', '&amp;', '&amp;amp;', '<>"\'&', "&#x27;", '&#39;', '&lt', 'a.ls', '.ls', 'ls', 'x.ls.ls', "o'neil mcDonald", 'on5min']
    return out


SWEEPS = []


def sweep(ctx, tag, imports, fn, inputs, py, what, per_file=250):
    """Queue a sweep `fn (list of strings)` vs the Python function; run_sweeps evaluates all of them together."""
    SWEEPS.append((imports, fn, inputs, py, what, per_file))


def run_sweeps(ctx):
    """Sweeps over the same input list share files: the list is parsed once per shard."""
    for imports in sorted(set(sw[0] for sw in SWEEPS)):
        group = [sw for sw in SWEEPS if sw[0] == imports]
        lists = []
        for sw in group:
            if not any(sw[2] is l for l in lists):
                lists.append(sw[2])
        bodies, owner = [], []
        for li, inputs in enumerate(lists):
            users = [gi for gi, sw in enumerate(group) if sw[2] is inputs]
            per_file = min(group[gi][5] for gi in users)
            for part in chunks(inputs, per_file):
                lines = ['Definition xs : list string := %s.' % coq_list([coq_str(x) for x in part])]
                lines += ['Eval vm_compute in (%s xs).' % group[gi][1] for gi in users]
                bodies.append('\n'.join(lines) + '\n')
                owner.append(users)
        try:
            res = eval_json('c20swp', imports, bodies, 'validation sweeps')
        except RuntimeError as ex:
            ctx.broken_tie('correspondence', 'validation sweeps', str(ex))
            continue
        got = dict((gi, []) for gi in range(len(group)))
        for users, r in zip(owner, res):
            if len(r) != len(users):
                ctx.broken_tie('correspondence', 'validation sweeps', 'a shard printed %d results for %d functions' % (len(r), len(users)))
                continue
            for gi, part in zip(users, r):
                got[gi].extend(part)
        for gi, (_, fn, inputs, py, what, per_file) in enumerate(group):
            bad = 0
            if len(got[gi]) != len(inputs):
                ctx.broken_tie('correspondence', what, 'coq returned %d results for %d inputs' % (len(got[gi]), len(inputs)))
                continue
            for x, g in zip(inputs, got[gi]):
                ctx.count()
                if py(x) != g:
                    bad += 1
                    if bad <= 2:
                        ctx.broken_tie('correspondence', what, {'input': x, 'python': py(x), 'coq': g})
            ctx.extra.setdefault('sweeps', {})[what] = len(inputs)
    del SWEEPS[:]


def validation_sweeps(ctx, urls):
    rng = ctx.rng
    n = 30000 if ctx.thorough() else 3000
    strings = random_ascii(rng, n)
    imp = IMPORTS_MODEL if ctx.model_runnable else IMPORTS_SPEC
    sweep(ctx, 'c20esc', imp, 'escape_cases', strings, lambda s: html.escape(s, quote=True), 'html.escape vs html_escape')
    # half escaped, half raw: exercises both answers of the well-escapedness test; the decoder is
    # compared with html.unescape on escaped strings only (its domain)
    esc = [html.escape(s) for s in strings[:n // 2]]
    mixed = esc + strings[n // 2:]
    sweep(ctx, 'c20une', imp, 'unescape_cases', esc, lambda t: html.unescape(t),
          'html.unescape vs html_unescape on escaped strings')
    sweep(ctx, 'c20wes', imp, 'well_escaped_cases', mixed, well_escaped, 'well_escaped vs the harness test')
    sweep(ctx, 'c20spt', imp, 'spec_title_cases', strings, lambda s: s.replace('_', ' ').replace('-', ' ').title(),
          'documented title derivation vs specification')
    sweep(ctx, 'c20spb', imp, 'spec_base_cases', strings, lambda s: s[:-3] if s[-3:] == '.ls' else s,
          '".ls" suffix rule vs specification')
    if ctx.model_runnable:
        sweep(ctx, 'c20tit', imp, 'title_cases', strings, lambda s: s.title(), 'str.title vs str_title')
        sweep(ctx, 'c20low', imp, 'lower_cases', strings, lambda s: s.lower(), 'str.lower vs str_lower')
        sweep(ctx, 'c20str', imp, 'strip_cases', strings, lambda s: s[:-3] if s[-3:] == '.ls' else s, 'path[:-3] rule vs strip_ls')
    # URL resolution: the stub over the blueprint's recorded rules vs model and specification
    extra = ['/', '', 'x', '//', '/a/b', '/stop/', '/stop', '/stop/x', '/stop/x/', '/stop//', '/capture', '/capture/', '/off', '/status',
             '/stop-current', '/stop-all', '/stop-all/x', '/<script_path>', '/stop/<script_path>', '/ ', '/stop/ ']
    for _ in range(400 if not ctx.thorough() else 4000):
        k = rng.randint(0, 3)
        extra.append(''.join(rng.choice(['/', '/', 'stop', 'capture', 'off', 'status', 'stop-current', 'stop-all', 'a', '&', '<x>', ' ', '-'])
                             for _ in range(k + 1)))
    urls = sorted(set(urls) | set(extra))

    def py_resolve(u):
        hit = HARNESS.flask.resolve(HARNESS.fe.blueprint, u)
        if hit is None:
            return None
        rule, fn, args = hit
        return [fn.__name__] + [args[k] for k in args]
    sweep(ctx, 'c20cls', imp, 'classify_cases', urls, py_resolve, 'URL resolution (stub over the recorded rules) vs classify')
    if ctx.model_runnable:
        sweep(ctx, 'c20res', imp, 'resolve_cases', urls, py_resolve, 'URL resolution (stub over the recorded rules) vs resolve')
    run_sweeps(ctx)


# ---------------------------------------------------------------------------

def make_cases(ctx, root):
    rng = ctx.rng
    n = 10000 if ctx.thorough() else 300
    cases = []
    seeded = [
        # the shipped manifest's shape, and names that the pinned tree mishandles
        ([{'file_name': 'a&b.ls', 'background': '#222', 'color': 'Li<nen'},
          {'file_name': 'on-all.ls', 'path': 'on', 'run_background': True, 'background': 'x', 'color': 'y'},
          {'file_name': '', 'path': 'stop', 'title': 'Stop', 'background': 'Maroon', 'color': 'White'},
          {'file_name': 'q"t\'.ls', 'path': 'a&amp;b', 'run_background': True, 'background': '<b>', 'color': '"'},
          {'file_name': 'off-all.ls', 'path': 'off', 'background': '#222', 'color': 'Linen'}],
         [['R', '/', AGENTS[0]], ['R', '/a&b', AGENTS[0]], ['R', '/a&b', AGENTS[1]], ['R', '/a&amp;b', AGENTS[0]],
          ['R', '/stop/a&amp;b', AGENTS[0]], ['R', '/stop/a&b', AGENTS[0]], ['R', '/on', AGENTS[2]], ['R', '/on', AGENTS[3]], ['R', '/stop/on', AGENTS[0]],
          ['R', '/stop', AGENTS[0]], ['R', '/status', AGENTS[0]], ['R', '/capture', AGENTS[0]], ['C'],
          ['R', '/stop/a&amp;b', AGENTS[0]], ['R', '/off', AGENTS[0]], ['R', '/stop-current', AGENTS[0]], ['R', '/stop-all', AGENTS[0]],
          ['B', 'on'], ['R', '/on', AGENTS[0]], ['R', '/nope', AGENTS[0]], ['R', '/x/y', AGENTS[0]], ['R', '/status', AGENTS[3]]]),
    ]
    for manifest, events in seeded:
        cases.append({'manifest': manifest, 'files': dict((e['file_name'], 'on all\n') for e in manifest), 'events': events})
    while len(cases) < n:
        manifest = gen_manifest(rng, root)
        cases.append({'manifest': manifest, 'files': gen_files(rng, manifest), 'events': gen_events(rng, manifest)})
    return cases


def coq_bodies(cases, with_model, per_file):
    bodies = []
    for part in chunks(list(enumerate(cases)), per_file):
        lines = []
        for i, c in part:
            lines.append('Definition m_%d : manifest := %s.' % (i, coq_list([coq_entry(e) for e in c['manifest']])))
            lines.append('Definition e_%d : list event := %s.' % (i, coq_list([coq_event(ev) for ev in c['events']])))
            lines.append('Eval vm_compute in (spec_case m_%d e_%d).' % (i, i))
            if with_model:
                lines.append('Eval vm_compute in (model_case m_%d e_%d).' % (i, i))
        bodies.append('\n'.join(lines) + '\n')
    return bodies


def run(ctx):
    ctx.rule = ('random manifests (0-6 entries; hostile file names, paths, titles, colours with HTML metacharacters, path separators, '
                'control characters; missing/empty optional fields; duplicate and reserved paths) x histories of 6-28 requests '
                '(listed, unlisted, stop, fixed pages, malformed URLs) and job completions; a case is non-trivial when at least one job '
                'was started and the history contains a repeated request for a running script or a stop request that has a target; '
                'distinct = distinct generated case')
    ctx.assumptions += ['ASCII manifests and request paths (0-127); request paths are taken literally (no percent-decoding, Werkzeug is not installed)',
                        'templates are not rendered (Jinja2 is not installed): "renders" means the view function hands a context to render_template without raising',
                        'every request carries a User-Agent header',
                        'job threads are real; each ScriptJob.execute waits at a gate until the history completes it (one request at a time, no concurrent requests)']
    ctx.trusted += ['harness/flask_stub.py (Blueprint, render_template, request, URL resolution: static rules before converter rules)',
                    'tools/gen_web.py (route table, escaped attribute list, accepted method texts)']
    HARNESS.install()
    root = tempfile.mkdtemp(prefix='c20_')
    t_impl = 0.0
    try:
        cases = make_cases(ctx, os.path.realpath(root))
        ctx.stage('generate')
        t0 = time.time()
        for i, c in enumerate(cases):
            c['impl'] = HARNESS.run_case(os.path.join(root, 'c%d' % i), c['manifest'], c['files'], c['events'])
            shutil.rmtree(os.path.join(root, 'c%d' % i), ignore_errors=True)
        t_impl = time.time() - t0
        ctx.stage('implementation')
    finally:
        shutil.rmtree(root, ignore_errors=True)
    with_model = bool(ctx.model_runnable)
    bodies = coq_bodies(cases, with_model, 40)
    try:
        res = eval_json('c20run', IMPORTS_MODEL if with_model else IMPORTS_SPEC, bodies, 'spec_case/model_case')
    except RuntimeError as ex:
        ctx.broken_tie('correspondence', 'coq evaluation', str(ex))
        return
    flat = [x for r in res for x in r]
    ctx.stage('coq')
    stats = {}
    step = 2 if with_model else 1
    for i, c in enumerate(cases):
        spec = flat[i * step]
        model = flat[i * step + 1] if with_model else None
        compare_case(ctx, i, c, spec, model, stats)
    ctx.stage('compare')
    ctx.extra['correspondence_mismatching_cases'] = stats.pop('_corr_reported', 0)
    ctx.extra['cases'] = len(cases)
    ctx.extra['events'] = sum(len(c['events']) for c in cases)
    ctx.extra['branches'] = dict(sorted(stats.items()))
    ctx.extra['implementation_s'] = round(t_impl, 2)
    ctx.extra['job_thread_notes'] = sorted(set(HARNESS.thread_errors))[:5]
    for c in cases[:2] + cases[40:42]:
        ctx.sample({'manifest': c['manifest'], 'events': c['events'][:6], 'observed': c['impl'][1][:6]})
    urls = [ev[1] for c in cases[:2000] for ev in c['events'] if ev[0] == 'R']
    validation_sweeps(ctx, urls)
    ctx.stage('sweeps')


def replay(ctx, payload):
    HARNESS.install()
    inp = payload.get('input', {})
    if 'manifest' not in inp:
        print('replay: no manifest in the payload')
        return False
    case = {'manifest': inp['manifest'], 'files': inp.get('files', {}), 'events': inp['events']}
    root = tempfile.mkdtemp(prefix='c20r_')
    try:
        case['impl'] = HARNESS.run_case(os.path.join(root, 'c0'), case['manifest'], case['files'], case['events'])
    finally:
        shutil.rmtree(root, ignore_errors=True)
    res = eval_json('c20rp', IMPORTS_SPEC, coq_bodies([case], False, 1), 'spec_case')
    ctx.model_runnable = False
    stats = {}
    compare_case(ctx, 0, case, res[0][0], None, stats)
    k = inp.get('step')
    if k is not None and k < len(case['events']):
        print('step %d: %r' % (k, case['events'][k]))
        print('  observed  : %r' % (case['impl'][1][k],))
        print('  prescribed: effects %r' % (norm_effects(res[0][0][1][k][0]),))
    for c in ctx.counterexamples:
        print('  %s: %s' % (c['sig'], c['what']))
    return not ctx.counterexamples
