"""C16 -- compilation depends only on the token sequence; every documented name is usable.

(a) lexer correspondence: Lex(text).tokens() vs Front/Lexer.v `lex` on generated scripts, re-layouts, token soup
    and noise (class, content and line of every token).
(b) re-layout: the token sequence of a valid generated script is rendered again with random white space, line
    breaks, comments, H/S/B/K for the four registers and no white space next to operators, braces, brackets and
    comparison operators; routine-call statements get square brackets: the instruction list must be identical.
    Curly braces round a single value (number or name after a register, print, assign): the program must be
    equivalent -- both are run on the same population and must give the same trace.
(c) names: every identifier of length <= 2, a sample of longer ones (up to 8), every case variant of every keyword,
    register, abbreviation and token-class name: used as variable, macro, parameter and routine name the script
    compiles and runs with the expected output iff the name is not a documented keyword / register / abbreviation;
    the lexer model's classification (Front/LexerProofs.names_are_free) is compared on the same names.
(d) strings: any characters other than a double quote and a line break."""
import itertools
import re
import common
import lang
import gen_prog
from common import coq_str
from props import c06

MODEL_TARGETS = ['Run/LexShow.vo']
EXTRA_TARGETS = MODEL_TARGETS

DOC_KEYWORDS = ['all', 'and', 'as', 'assign', 'at', 'begin', 'break', 'column', 'cycle', 'default', 'define', 'else', 'end', 'from',
                'get', 'group', 'if', 'in', 'location', 'logical', 'off', 'on', 'or', 'print', 'printf', 'println', 'pause', 'raw',
                'row', 'repeat', 'return', 'rgb', 'set', 'stage', 'to', 'units', 'while', 'with', 'wait', 'zone']
UNDOC = ['not', 'breakpoint']
REGS = ['hue', 'saturation', 'brightness', 'kelvin', 'red', 'green', 'blue', 'default', 'duration', 'time']
ABBR = {'H': 'hue', 'S': 'saturation', 'B': 'brightness', 'K': 'kelvin'}
BUILTINS = ['round', 'floor', 'ceil', 'trunc', 'sqrt', 'cycle']
TIGHT = set('[]{}()+-*/%^') | {'<', '>', '<=', '>=', '==', '!='}
NAME_ALPHA = 'abzABZ_019hSK'


def lex_key(text):
    from bardolph.parser.lex import Lex
    out = []
    for t in Lex(text).tokens():
        out.append('%s|%s|%d;' % (t.token_type.name, lang.show_str(t.content), t.line_number))
    return ''.join(out)


def tokens_of(text):
    from bardolph.parser.lex import Lex
    return [(t.token_type.name, t.content, t.line_number) for t in Lex(text).tokens()][:-1]


def render_token(rng, tt, content, abbreviate=True):
    if tt == 'LITERAL_STRING':
        return '"' + content.replace('"', '\\"') + '"'
    if tt == 'REGISTER' and abbreviate and rng.random() < 0.5:
        for a, full in ABBR.items():
            if full == content:
                return a
    if tt in ('ERROR', 'MARK', 'NAME', 'NUMBER', 'REGISTER', 'TIME_PATTERN', 'COMPARE'):
        return content
    return tt.lower()


def relayout(rng, toks, comments=True, tight=True):
    parts = []
    for i, (tt, c, _) in enumerate(toks):
        parts.append(render_token(rng, tt, c))
        if i + 1 == len(toks):
            break
        nxt = toks[i + 1]
        can_tight = tight and ((tt in ('MARK', 'COMPARE') and c in TIGHT) or (nxt[0] in ('MARK', 'COMPARE') and nxt[1] in TIGHT))
        # a number directly before a name or a dot would fuse; marks never fuse with their neighbours except into
        # a time pattern (digits or * before ':'), and ':' is not in TIGHT
        if can_tight and rng.random() < 0.6:
            continue
        r = rng.random()
        if r < 0.45:
            parts.append(' ')
        elif r < 0.6:
            # every character the regular expressions count as white space, not only blank and tab
            parts.append(rng.choice(['  ', '\t', ' \t ', '   ', '\x0c', '\x0b', ' \x1c', '\x1d ', '\x1e', '\x1f', '\r', '\x0c\x0b']))
        elif r < 0.85 or not comments:
            parts.append(rng.choice(['\n', '\n\n', ' \n  ', '\r\n']))
        else:
            parts.append(rng.choice([' # a comment\n', '# hue 5 "x" end\n', ' #\n', '\n# define begin [ {\n', ' # was:\x0chue 300 set all\n', '# a\x0bb\x1cc\x1dd\x1ee "\n']))
    head = rng.choice(['', '', '\n', '  ', '# first line\n'])
    tail = rng.choice(['', '\n', ' ', ' # the end', '\n\n'])
    return head + ''.join(parts) + tail


def bracket_calls(rng, text, routines):
    out = []
    changed = False
    closed = {'assign', 'print', 'println', 'hue', 'saturation', 'brightness', 'kelvin', 'duration', 'red', 'green', 'blue', 'units', 'wait', 'break'}
    prev = 'begin'
    for line in text.split('\n'):
        m = re.match(r'^(\s*)([A-Za-z_][A-Za-z0-9_]*)((?:\s.*)?)$', line)
        # the statement before must be complete: `zone 1`, `return`, `stage row 1` ... would take the bracketed call as a value
        pw = prev.split()
        prev_closed = bool(pw) and (pw[-1] in ('begin', 'end') or (pw[0] in closed and '[' not in prev))
        if line.strip():
            prev = line
        if m and m.group(2) in routines and prev_closed and rng.random() < 0.7 and '#' not in line:
            out.append('%s[%s%s]' % (m.group(1), m.group(2), m.group(3).rstrip()))
            changed = True
        else:
            out.append(line)
    return '\n'.join(out), changed


def brace_values(rng, toks):
    """wrap a single number / name that directly follows a register or print / assign NAME in braces"""
    out = []
    changed = False
    i = 0
    n = len(toks)
    while i < n:
        tt, c, ln = toks[i]
        out.append(toks[i])
        # (a register name sets the register only where a statement begins: in `println hue` + `do_it` on the next line the
        # register is the value printed and `do_it` a call, not a value)
        value_pos = (tt == 'REGISTER' and c != 'default' and (i == 0 or toks[i - 1][2] != ln)) or tt in ('PRINT', 'PRINTLN') or \
                    (tt == 'NAME' and i > 0 and toks[i - 1][0] == 'ASSIGN')
        if value_pos and i + 1 < n and toks[i + 1][0] in ('NUMBER', 'NAME') and (i == 0 or toks[i - 1][0] not in ('MARK', 'COMPARE', 'WITH', 'DEFINE')) \
                and (i + 2 >= n or toks[i + 2][0] not in ('MARK', 'COMPARE') or toks[i + 2][1] in '[{') and rng.random() < 0.6:
            if toks[i + 1][0] == 'NAME' and i + 2 < n and toks[i + 2][0] in ('NUMBER', 'NAME', 'LITERAL_STRING', 'MARK'):
                i += 1
                continue   # possibly a call with arguments
            out.append(('MARK', '{', ln))
            out.append(toks[i + 1])
            out.append(('MARK', '}', ln))
            changed = True
            i += 2
            continue
        i += 1
    return out, changed


class UnassignedReads:
    """Records whether a run reads a variable that holds nothing (CallStack.get_variable answers None)."""

    def __enter__(self):
        from bardolph.vm import call_stack
        self.cls = call_stack.CallStack
        self.orig = self.cls.get_variable
        self.seen = False
        me = self

        def get_variable(cs, identifier):
            v = me.orig(cs, identifier)
            if v is None:
                me.seen = True
            return v
        self.cls.get_variable = get_variable
        return self

    def __exit__(self, *a):
        self.cls.get_variable = self.orig
        return False


def compile_key(text):
    p, e = lang.compile_script(text)
    return ('A#' + lang.show_program(p)) if p is not None else 'R#' + e, p


def run_lexer_model(ctx, texts):
    texts = [t for t in texts if all(ord(c) < 128 for c in t)]
    bodies = ['Eval vm_compute in (lex_case %s).\n' % coq_str(t) for t in texts]
    packed = [''.join(bodies[k:k + 60]) for k in range(0, len(bodies), 60)]
    res = common.run_cases('c16', 'From Bardolph Require Import Run.LexShow.', packed)
    out = []
    for ok, strs, log in res:
        if not ok:
            ctx.broken_tie('correspondence', 'lexer model evaluation failed', log[-800:])
            return None
        out += strs
    bad = 0
    for t, m in zip(texts, out):
        ctx.count()
        k = lex_key(t)
        if k != m:
            bad += 1
            if bad <= 4:
                ctx.broken_tie('correspondence', 'Lex.tokens vs lexer model', {'text': t[:300], 'implementation': k[:300], 'model': m[:300]})
    ctx.extra['lexer_model_agree'] = len(texts) - bad
    return bad == 0


def name_cases(rng, thorough):
    names = set()
    first = 'abzABZ_hHSK'
    rest = first + '019'
    for a in 'abcdefghijklmnopqrstuvwxyzABCDEFGHIJKLMNOPQRSTUVWXYZ_':
        names.add(a)
    for a in first:
        for b in rest:
            names.add(a + b)
    for w in DOC_KEYWORDS + UNDOC + REGS + c06.INTERNAL + list(ABBR) + BUILTINS:
        names |= {w, w.upper(), w.title(), w[0] + w[1:].upper(), w + '_', '_' + w, w + '1', w[:-1]}
        if len(w) <= 8:
            for _ in range(2):
                names.add(''.join(ch.upper() if rng.random() < 0.5 else ch for ch in w))
    for _ in range(4000 if thorough else 250):
        k = rng.randint(3, 8)
        names.add(rng.choice(first) + ''.join(rng.choice(rest) for _ in range(k - 1)))
    names = [n for n in names if re.match(r'^[A-Za-z_][A-Za-z0-9_]*$', n)]
    return sorted(names)


def name_templates(n):
    return [('variable', 'assign %s 7 print %s' % (n, n), ['O|i7']),
            ('macro', 'define %s 8 print %s' % (n, n), ['O|i8']),
            ('parameter', 'define qq_f with %s begin print %s end qq_f 9' % (n, n), ['O|i9']),
            ('routine', 'define %s begin print 3 end %s' % (n, n), ['O|i3']),
            ('function', 'define %s with a begin return {a + 1} end print [%s 4]' % (n, n), ['O|i5']),
            # a later parameter that shares its name with an existing global variable / macro, and a routine defined afterwards
            ('second-parameter-hiding-a-variable', 'assign %s 3 define qq_g with qq_b %s begin return {qq_b * 10 + %s} end print [qq_g 1 2] print %s' % (n, n, n, n), ['O|i12', 'O|i3']),
            ('third-parameter-hiding-a-variable', 'assign %s 3 define qq_g with qq_a qq_b %s begin return {qq_a + qq_b + %s} end print [qq_g 1 2 4] print %s' % (n, n, n, n), ['O|i7', 'O|i3']),
            ('local', 'define qq_h begin assign %s 6 return %s end print [qq_h]' % (n, n), ['O|i6']),
            ('loop-index', 'repeat with %s from 1 to 2 begin print %s end' % (n, n), ['O|i1', 'O|i2']),
            ('light-variable', 'repeat all as %s begin print %s end' % (n, n), None)]


def check_names(ctx, names):
    reserved = set(DOC_KEYWORDS) | set(REGS) | set(ABBR)
    dist = {'free': 0, 'reserved': 0}
    for n in names:
        is_res = n in reserved
        dist['reserved' if is_res else 'free'] += 1
        for role, text, expect in name_templates(n):
            ctx.count()
            try:
                p, e = lang.compile_script(text)
            except Exception as ex:
                ctx.counterexample('C16/compiler-raises-on-name', 'using the name %r as a %s makes the compiler raise %s' % (n, role, type(ex).__name__), {'text': text})
                continue
            if is_res:
                continue   # that reserved words are rejected is not part of the property
            builtin = n in BUILTINS
            if p is None or n in UNDOC:
                if n in UNDOC:
                    if p is not None:
                        st, evs = lang.run_program_impl(p, lang.SMALL_WORLD, max_steps=500)
                        if st == 'FIN' and [x for x in evs if x != 'FL'] == expect:
                            continue
                    ctx.counterexample('C16/undocumented-reserved-word-' + n, 'the name %r (not a documented keyword) cannot be used as a %s: %s' % (n, role, e.strip()[:100]), {'text': text})
                elif builtin:
                    continue  # the names of the built-in functions are documented as predefined routines
                else:
                    ctx.counterexample('C16/name-rejected-' + role, 'the documented-form name %r cannot be used as a %s: %s' % (n, role, e.strip()[:100]), {'text': text})
                continue
            if builtin:
                continue
            ctx.nontriv(text)
            st, evs = lang.run_program_impl(p, lang.SMALL_WORLD, max_steps=500)
            evs = [x for x in evs if x != 'FL']
            if expect is None:
                expect = evs if st == 'FIN' else None     # only: compiles and runs to the end
            if st != 'FIN' or evs != expect:
                ctx.counterexample('C16/name-misbehaves-' + role, 'the name %r used as a %s compiles but the script gives %s %r instead of %r' % (n, role, st, evs[:3], expect), {'text': text})
    ctx.extra['names'] = dist
    # case sensitivity: two names differing in case are different variables
    for a, b in [('abc', 'ABC'), ('Print', 'pRINT'), ('x', 'X'), ('End', 'END'), ('number', 'Number'), ('h', 'k')]:
        text = 'assign %s 1 assign %s 2 print %s print %s' % (a, b, a, b)
        ctx.count()
        p, e = lang.compile_script(text)
        if p is None:
            ctx.counterexample('C16/name-rejected-variable', 'names %r and %r cannot be used together: %s' % (a, b, e.strip()[:100]), {'text': text})
            continue
        st, evs = lang.run_program_impl(p, lang.SMALL_WORLD, max_steps=500)
        if [x for x in evs if x.startswith('O|')] != ['O|i1', 'O|i2']:
            ctx.counterexample('C16/names-not-case-sensitive', 'variables %r and %r are not distinct: %r' % (a, b, evs[:6]), {'text': text})


TW = ('define twice with a begin return {a * 2} end define show with v begin print v end '
      'define both with p q begin print p print q end ')


def check_strings(ctx, thorough):
    rng = ctx.rng
    alpha = ''.join(chr(i) for i in range(32, 127) if chr(i) != '"') + '\t\x0b\x0c\x1c\x1d\x1e\x1f\r'
    cases = ['left\x0cright', 'a\x0bb', 'x\x1cy\x1dz\x1e', '\x1f', 'cr\rcr', '#', '# not a comment', '{', '}', '[x]', 'end', 'a\\b', '\\n', "it's", '%', '{} {}', '12:30', 'H', ' ', '  lead and trail  ', '-', '+', 'and', 'or',
             '<=', 'print', 'a\\', '\\', '\\\\', 'été', '中', '\U0001F4A1 lamp', '\x7f', '']
    # every single character on its own (a string that is exactly a mark: ] [ { } ( ) - + ...), and pairs of marks
    cases += [c for c in alpha if c not in ' \t\x0b\x0c\x1c\x1d\x1e\x1f\r\\'] + ['[]', ']]', '][', '{}', '()', ')', '((', '*:*', '::']
    for _ in range(3000 if thorough else 250):
        cases.append(''.join(rng.choice(alpha) for _ in range(rng.randint(1, 12))))
    for s in cases:
        if '\\' not in s and s.strip():
            # the same text is also the name of a routine: a quoted string is still a string
            ident = s if re.match(r'^[A-Za-z_][A-Za-z0-9_]*$', s) and s not in DOC_KEYWORDS + UNDOC + REGS + list(ABBR) + BUILTINS else 'zq_r'
            # ... and of a macro: the string stays the string in every value position
            for mtext, mexp in [] if ident == 'zq_w' else [('define %s 40 print "%s" println "%s"' % (ident, ident, ident), ['O|' + lang.show_val(ident), 'O|' + lang.show_val(ident), 'NL']),
                                ('define %s "other text" assign zq_w "%s" print zq_w' % (ident, ident), ['O|' + lang.show_val(ident)]),
                                ('define %s 7 printf "{}|{}" "%s" %s' % (ident, ident, ident), ['O|' + lang.show_val(ident + '|7')])]:
                ctx.count()
                p, e = lang.compile_script(mtext)
                if p is None:
                    ctx.counterexample('C16/string-equal-to-macro-name', 'a quoted string equal to the name of a macro is not accepted as a value: %s' % e.strip()[:80], {'text': mtext})
                    continue
                st, evs = lang.run_program_impl(p, lang.SMALL_WORLD, max_steps=200)
                evs = [x for x in evs if x != 'FL']
                if st != 'FIN' or evs != mexp:
                    ctx.counterexample('C16/string-equal-to-macro-name', 'a quoted string equal to the name of a macro is not kept as written: %r prints %r instead of %r' % (mtext, evs[:4], mexp[:4]), {'text': mtext})
            text = 'define %s begin hue 1 end define mm "%s" print mm' % (ident, ident)
            ctx.count()
            p, e = lang.compile_script(text)
            if p is None:
                ctx.counterexample('C16/string-equal-to-routine-name', 'a quoted string equal to the name of a routine is not accepted as a value: %s' % e.strip()[:80], {'text': text})
        for text, expect, tag in [('print "%s"' % s, ['O|' + lang.show_val(s)], 'alone'),
                                  ('assign v "%s" print v print "z"' % s, ['O|' + lang.show_val(s), 'O|' + lang.show_val('z')], 'followed-by-string'),
                                  # as the argument of a routine call, with and without the optional brackets, first and last
                                  ('define sh with t begin print t end sh "%s"\nprint "z"' % s, ['O|' + lang.show_val(s), 'O|' + lang.show_val('z')], 'call-argument'),
                                  ('define sh with t begin print t end [sh "%s"]\nprint "z"' % s, ['O|' + lang.show_val(s), 'O|' + lang.show_val('z')], 'bracketed-call-argument'),
                                  ('define sh2 with t u begin print t print u end sh2 "%s" 5\nsh2 6 "%s"' % (s, s),
                                   ['O|' + lang.show_val(s), 'O|i5', 'O|i6', 'O|' + lang.show_val(s)], 'call-argument-of-two'),
                                  ('printf "{}|{}" "%s" 7' % s, ['O|' + lang.show_val(s + '|7')], 'printf-value')]:
            ctx.count()
            ctx.nontriv(text)
            try:
                p, e = lang.compile_script(text)
            except Exception as ex:
                ctx.counterexample('C16/compiler-raises-on-string', 'the string %r makes the compiler raise %s' % (s, type(ex).__name__), {'text': text})
                continue
            trailing = len(s) - len(s.rstrip('\\'))
            # D34 (known finding) is about a string that ends in a backslash AND is followed by another quoted string on its line
            sig = 'C16/string-trailing-backslash' if trailing >= 1 and tag == 'followed-by-string' else 'C16/string-content-' + tag
            if p is None:
                ctx.counterexample(sig, 'the quoted string %r is not accepted (%s): %s' % (s, tag, e.strip()[:80]), {'text': text})
                continue
            st, evs = lang.run_program_impl(p, lang.SMALL_WORLD, max_steps=200)
            evs = [x for x in evs if x != 'FL']
            if st != 'FIN' or evs != expect:
                ctx.counterexample(sig, 'the quoted string %r (%s) is not kept as written: the script prints %r instead of %r' % (s, tag, evs[:4], expect[:4]), {'text': text})


def run(ctx):
    lang.ensure_env()
    rng = ctx.rng
    ctx.rule = ('valid generated scripts and their re-layouts (white space, line breaks, comments, abbreviations, tight operators, call brackets, braces round '
                'single values); identifiers of length 1-2 exhaustively over a reduced alphabet, all case variants of keywords / registers / class names, '
                'random names up to length 8, each in five roles; strings over printable ASCII plus selected non-ASCII; non-trivial = a re-layout that differs '
                'from the original text / a name that compiles / a string case; distinct = distinct text')
    ctx.assumptions += ['braces round a single value change MOVEQ into PUSHQ/POP on every tree: for them "does not change the compiled program" is read as an equivalent program (same trace), as DESIGN.md fixes',
                        'the names of the built-in functions (round floor ceil trunc sqrt cycle) are predefined routines and are not expected to be free']
    n = 1200 if ctx.thorough() else 90
    lex_texts = []
    dist = {}
    for i in range(n):
        world = gen_prog.World.generate(rng)
        g = gen_prog.Gen(rng, world, {'nested_defs': 3, 'p_expr': 0.5, 'expr_depth': 3})
        text = g.gen_script(rng.randint(1, 6))[0]
        k0, p0 = compile_key(text)
        if p0 is None:
            continue
        lex_texts.append(text)
        toks = tokens_of(text)
        for v in range(3):
            t2 = relayout(rng, toks)
            ctx.count()
            if t2 != text:
                ctx.nontriv(t2)
            dist['relayout'] = dist.get('relayout', 0) + 1
            k2, _ = compile_key(t2)
            if v == 0:
                lex_texts.append(t2)
            if k2 != k0:
                ctx.counterexample('C16/relayout-changes-program', 'a re-layout of a valid script compiles differently: %s vs %s' % (k2[:120], k0[:120]), {'text': text, 'relayout': t2})
        t3, ch = bracket_calls(rng, text, set(g.routines))
        if ch:
            ctx.count()
            ctx.nontriv(t3)
            dist['brackets'] = dist.get('brackets', 0) + 1
            k3, _ = compile_key(t3)
            if k3 != k0:
                ctx.counterexample('C16/call-brackets-change-program', 'square brackets round routine-call statements change the compiled program', {'text': text, 'relayout': t3})
        toks4, ch = brace_values(rng, toks)
        if ch:
            t4 = relayout(rng, toks4, comments=False)
            ctx.count()
            ctx.nontriv(t4)
            dist['braces'] = dist.get('braces', 0) + 1
            k4, p4 = compile_key(t4)
            if p4 is None:
                ctx.counterexample('C16/braces-round-value-rejected', 'curly braces round single values make the script fail to compile: %s' % k4[:120], {'text': text, 'relayout': t4})
            else:
                with UnassignedReads() as ur:
                    r0 = lang.run_program_impl(p0, world, max_steps=4000)
                r4 = lang.run_program_impl(p4, world, max_steps=4000)
                if ur.seen:
                    # the script reads a variable no statement has assigned on this path: a run-time error of the script in either
                    # writing (a bare name hands None on, a braced one stops the machine) -- not a valid script, not compared
                    dist['braces_unassigned_read'] = dist.get('braces_unassigned_read', 0) + 1
                elif r0[0] != 'FUEL' and r4[0] != 'FUEL' and (r0[0], r0[1]) != (r4[0], r4[1]):
                    ctx.counterexample('C16/braces-round-value-change-behaviour', 'curly braces round single values change what the script does', {'text': text, 'relayout': t4, 'world': world})
    ctx.extra['layout_distribution'] = dist
    # fixed forms from the reference: no white space needed next to operators, braces, brackets
    for a, b in [('define g begin print 1 end time at 8:00[g]', 'define g begin print 1 end time at 8:00 [ g ]'),            # D65
                 ('define f with t begin return t end assign x [f 12:30]', 'define f with t begin return t end assign x [ f 12:30 ]'),
                 ('define f with t begin return t end assign x {[f *:30]}', 'define f with t begin return t end assign x { [ f *:30 ] }'),
                 ('hue {5%3}', 'hue { 5 % 3 }'), ('hue {5 %3}', 'hue {5 % 3}'), ('hue {2^3}', 'hue { 2 ^ 3 }'), ('hue {(1+2)*3}', 'hue { ( 1 + 2 ) * 3 }'),
                 ('define f with a begin return {a*2} end hue [f 1]', 'define f with a begin return { a * 2 } end hue [ f 1 ]'),
                 ('if{1<2}begin hue 1 end', 'if { 1 < 2 } begin hue 1 end'), ('assign x 5 if{x>=5}hue 1 else hue 2', 'assign x 5 if { x >= 5 } hue 1 else hue 2'),
                 ('hue{1!=2}', 'hue { 1 != 2 }'), ('hue {-5}', 'hue { - 5 }'), ('H 5 S 6 B 7 K 8', 'hue 5 saturation 6 brightness 7 kelvin 8'),
                 ('hue 5#comment', 'hue 5'),
                 ('define f with a begin print a end define g [f 1] g', 'define f with a begin print a end define g f 1 g'),
                 ('define f begin print 1 end define g [f] [g]', 'define f begin print 1 end define g f g'),
                 # optional brackets round a call statement whose argument is itself a bracketed call
                 (TW + 'show [twice 5]', TW + '[show [twice 5]]'), (TW + 'show {[twice 5] + 1}', TW + '[show {[twice 5] + 1}]'),
                 (TW + 'if 1 show [twice 4]', TW + 'if 1 [show [twice 4]]'), (TW + 'both 3 [twice 1]', TW + '[both 3 [twice 1]]'),
                 (TW + 'both [twice 1] [twice [twice 2]]', TW + '[both [twice 1] [twice [twice 2]]]'),
                 (TW + 'repeat 2 begin show [twice 5] end', TW + 'repeat 2 begin [show [twice 5]] end'),
                 ('hue {(5)}', 'hue {{5}}'), ('assign x 2 hue {2 * (x + 1)}', 'assign x 2 hue {2 * {x + 1}}'), ('hue {5-3}', 'hue {5 - 3}'), ('hue {5/3}', 'hue {5 / 3}')]:
        ctx.count()
        ka, _ = compile_key(a)
        kb, _ = compile_key(b)
        lex_texts += [a, b]
        if ka != kb or not ka.startswith('A#'):
            ctx.counterexample('C16/relayout-changes-program', '%r and %r compile differently: %s vs %s' % (a, b, ka[:100], kb[:100]), {'text': b, 'relayout': a})
    # braces round a single value in the positions the generator's statements do not reach: the names of a light list, arguments,
    # loop bounds, conditions -- the script does the same
    PRE = 'assign a "light_1" assign b "light_2" assign c "light_0" assign g "group" assign n 2\n'
    for plain, braced in [('repeat in a and b and c as l begin print l end', 'repeat in {a} and {b} and {c} as l begin print l end'),
                          ('repeat in a and b as l begin print l end', 'repeat in {a} and b as l begin print l end'),
                          ('repeat in c and group g and a as l begin print l end', 'repeat in {c} and group {g} and {a} as l begin print l end'),
                          ('repeat in group g and b as l begin print l end', 'repeat in group {g} and b as l begin print l end'),
                          ('repeat n begin print n end', 'repeat {n} begin print {n} end'),
                          ('repeat with i from 1 to n begin print i end', 'repeat with i from {1} to {n} begin print {i} end'),
                          ('define f with p q begin print p print q end f n 5', 'define f with p q begin print {p} print {q} end f {n} {5}'),
                          ('if n begin print 1 end else begin print 0 end', 'if {n} begin print {1} end else begin print {0} end'),
                          ('repeat in a and b as l with v from 10 to 20 begin print l print v end', 'repeat in {a} and {b} as l with v from {10} to {20} begin print l print v end'),
                          # a string is a single value too: a string macro, a string literal, a string variable (D64)
                          ('define k "nobody" assign nm k println nm', 'define k "nobody" assign nm {k} println nm'),
                          ('println "abc" print "x y"', 'println {"abc"} print {"x y"}'),
                          ('define k "light_1" assign s k on s print k', 'define k "light_1" assign s {k} on s print {k}'),
                          ('define f with p begin println p end f "t" f a', 'define f with p begin println {p} end f {"t"} f {a}'),
                          # ... and so is a time of day: a literal or a constant defined as one
                          ('define wake 8:00 assign t wake println t define f with p begin println p end f 7:*5 f wake',
                           'define wake 8:00 assign t {wake} println {t} define f with p begin println {p} end f {7:*5} f {wake}')]:
        ctx.count()
        pa, ea = lang.compile_script(PRE + plain)
        pb, eb = lang.compile_script(PRE + braced)
        if pa is None or pb is None:
            ctx.counterexample('C16/braces-round-value-rejected', 'curly braces round single values make the script fail to compile: %s' % (ea or eb).strip()[:120], {'text': PRE + plain, 'relayout': PRE + braced})
            continue
        ra = lang.run_program_impl(pa, lang.SMALL_WORLD, max_steps=2000)
        rb = lang.run_program_impl(pb, lang.SMALL_WORLD, max_steps=2000)
        if (ra[0], ra[1]) != (rb[0], rb[1]):
            ctx.counterexample('C16/braces-round-value-change-behaviour', 'curly braces round single values change what the script does: %r gives %r, %r gives %r'
                               % (plain, ra[1][:8], braced, rb[1][:8]), {'text': PRE + plain, 'relayout': PRE + braced, 'world': lang.SMALL_WORLD})
    ctx.stage('relayout')
    for i in range(3000 if ctx.thorough() else 250):
        lex_texts.append(c06.soup(rng))
        lex_texts.append(c06.noise(rng))
    names = name_cases(rng, ctx.thorough())
    if ctx.model_runnable:
        run_lexer_model(ctx, lex_texts + [' '.join(names[k:k + 40]) for k in range(0, len(names), 40)])
    ctx.stage('lexer-model')
    check_names(ctx, names)
    ctx.stage('names')
    check_strings(ctx, ctx.thorough())
    ctx.stage('strings')
    ctx.sample({'names_checked': len(names), 'first': names[:5]})


def replay(ctx, payload):
    inp = payload['input']
    k, _ = compile_key(inp['text'])
    print('text    :', k[:300])
    if 'relayout' in inp:
        k2, _ = compile_key(inp['relayout'])
        print('relayout:', k2[:300])
        return k == k2
    return k.startswith('A#')
