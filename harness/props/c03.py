"""C03 -- parameters are by-value locals hiding globals; return works from any depth.

Same pipeline comparison as C01 with a generator biased to routines: parameters named like
globals, assignments inside loops and conditionals inside routines, returns at depth, nested
and recursive calls used as statements, bracketed, as arguments and as expression operands."""
import langcheck

MODEL_TARGETS = ['Run/SemShow.vo', 'Run/VmShow.vo']
EXTRA_TARGETS = MODEL_TARGETS
OPTS = {'p_routine': 0.4, 'p_recursive': 0.3, 'kinds': False,
        'weights': {'call': 30, 'assign': 22, 'print': 18, 'return': 10, 'repeat': 12, 'if': 12, 'set': 4, 'power': 1,
                    'time': 1, 'units': 1, 'get': 1, 'wait': 1, 'printf': 3, 'reg': 6}}


def run(ctx):
    ctx.rule = ('routine-heavy generated scripts (0-3 parameters, parameter names drawn from the same pool as globals, loops and '
                'conditionals in bodies, returns at any depth, nested/recursive calls in all four call positions); non-trivial = the '
                'script defines and calls at least one routine and prints or transmits at least two events; distinct = distinct text')
    ctx.assumptions += ['printed values and device commands are the observables; scoping is otherwise not observable']
    n = 5000 if ctx.thorough() else 380
    corpus = langcheck.load_corpus('C03')
    cases, stats = langcheck.generate_cases(ctx.rng, n, OPTS, size=(3, 9), tag='c03')
    summary = langcheck.compare_all(ctx, 'C03', corpus + cases)
    ctx.extra['summary'] = summary
    ctx.extra['generator_distribution'] = stats
    # non-trivial rule: keep only cases with a routine definition and a call
    ctx.nontrivial = {t for t in ctx.nontrivial if isinstance(t, str) and 'define ' in t and ' begin' in t}
    if summary['cases'] and summary['rejected'] > 0.05 * summary['cases']:
        ctx.broken_tie('correspondence', 'generator: well-formed scripts rejected by the compiler',
                       {'rejected': summary['rejected'], 'of': summary['cases'], 'samples': ctx.extra.get('rejected_samples')})


def replay(ctx, payload):
    import props.c01 as c01
    return c01.replay(ctx, payload)
