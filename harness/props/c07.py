"""C07 -- transmitted colours and durations are in protocol range and numerically exact.

Ties checked on every run:
  T1  translator validation: the generated functions of Gen/ParamGen.v, Gen/UnitsGen.v,
      Gen/ColorsysGen.v against the Python originals BIT FOR BIT (floats by bit pattern, integers
      as such), as digests over integer-indexed sweeps evaluated on both sides: all 65 536 raw
      values per component (raw->logical->raw, raw->rgb->raw, param_8/16/32, time), the logical
      grid -50..800 step 1/8, rgb grids inside and beyond 0..100, logical->rgb grid, colorsys on
      fractions k/31, plus explicit specials (huge, tiny, -0.0, inf, nan).  On integral inputs
      the originals are also called with the Python int and must return the same value.
  T2  correspondence: scripts of every command kind (set/on/off on light, group, location, all,
      zone, matrix cell) in every unit mode on the REAL pipeline (Parser + Machine + LightSet),
      observed at the simulated devices (repository fakes, and production wrappers over fake
      lifxlan objects) vs the model Num/UnitsFloat.transmit -- must agree exactly;
  O   oracle: the same observations vs the specification Num/UnitsQ (exact rationals): every
      integer in range, equal to the nearest integer of the exact value (clamped); agreement is
      also accepted when the exact value is within 1e-9 of a rounding tie (counted).
"""
import math

import common
import units_env as U
from units_env import float_code, coq_f

MODEL_TARGETS = ['Run/C07Model.vo']
EXTRA_TARGETS = ['Run/C07Spec.vo', 'Run/C07Model.vo']
SPEC_IMPORT = 'From Bardolph Require Import Run.C07Spec.'
MODEL_IMPORT = 'From Bardolph Require Import Run.C07Model.'

EPS = 1.0 / 65536.0 / 2.0


# ---------------------------------------------------------------------------
# T1: Python mirror of Run/C07Model.sweep_fn

def codes(vals):
    return [float_code(v) for v in vals]


def ints(vals):
    out = []
    for v in vals:
        if not isinstance(v, int) or isinstance(v, bool):
            raise TypeError('expected an int, got %r' % (v,))
        out.append(v)
    return out


def zero_division(r, g, b):
    maxc = max(r, g, b)
    minc = min(r, g, b)
    return minc != maxc and maxc == 0.0


class Mirror:
    def __init__(self):
        import colorsys
        from bardolph.controller import units
        from bardolph.controller.color_matrix import ColorMatrix
        from bardolph.lib import param_helper
        self.u, self.ph, self.cs = units, param_helper, colorsys
        self.std = lambda x: ColorMatrix._standardize_raw([x])[0]

    def grid_out(self, x):
        u, ph = self.u, self.ph
        l2r = u.logical_to_raw([x, x, x, x])
        std = 0 if math.isnan(x) else self.std(x)       # Python raises ValueError on nan
        return (codes(l2r)
                + [float_code(u._pct_to_raw(x)), float_code(u.time_raw(x)), float_code(u.time_logical(x))]
                + ints([ph.param_8(x), ph.param_16(x), ph.param_32(x), ph.param_bool(x), std])
                + ints(ph.param_color(l2r)) + codes(u.raw_to_logical([x, x, x, x])))

    def rgb_out(self, c):
        u, ph = self.u, self.ph
        # units.py guards colorsys.rgb_to_hsv (D62): nothing raises; the model has no [0] rows
        try:
            u.rgb_to_raw(c)
        except ZeroDivisionError:
            return [0]
        raw = u.rgb_to_raw(c)
        return codes(raw) + codes(u.rgb_to_logical(c)) + ints(ph.param_color(raw))

    def sweep(self, ident, i, as_int=False):
        u, ph = self.u, self.ph
        f = (lambda n: n) if as_int else float
        if ident == 1:
            r = f(i)
            l = u.raw_to_logical([r, r, r, r])
            back = u.logical_to_raw(l)
            return codes(l) + codes(back) + ints(ph.param_color(back))
        if ident == 2:
            r = f(i)
            return (ints([ph.param_8(r), ph.param_16(r), ph.param_32(r), ph.param_bool(r)])
                    + codes([u.time_raw(r), u.time_logical(r), u.time_logical(u.time_raw(r)), u.time_raw(u.time_logical(r))])
                    + ints([self.std(r), round(r)]))
        if ident == 3:
            c = [f(i), f((i * 40503) % 65536), f((i * 7 + 3) % 65536), f(i % 9000)]
            g = u.raw_to_rgb(c)
            return codes(g) + self.rgb_out(g)
        if ident == 4:
            return self.grid_out(i / 8.0)
        if ident == 5:
            v = lambda k: f(k * 5 - 10)
            return self.rgb_out([v(i % 24), v((i // 24) % 24), v(i // 576), f(3500)])
        if ident == 6:
            v = lambda k: (k * 25) / 4.0
            return self.rgb_out([v(i % 17), v((i // 17) % 17), v(i // 289), 2700.0])
        if ident == 7:
            c = [f((i % 73) * 5), f(((i // 73) % 11) * 10), f((i // 803) * 10), f(4000)]
            g = u.logical_to_rgb(c)
            return codes(g) + self.rgb_out(g)
        if ident == 8:
            v = lambda k: k / 31.0
            a, b, c = v(i % 32), v((i // 32) % 32), v(i // 1024)
            out = codes(self.cs.hsv_to_rgb(a, b, c))
            if zero_division(a, b, c):
                return out + [0]
            return out + codes(self.cs.rgb_to_hsv(a, b, c))
        raise ValueError(ident)


def digest(seq_of_lists):
    j = a = b = 0
    for lst in seq_of_lists:
        for c in lst:
            a += (j + 1) * c
            b += ((j * 40503 + 12345) & 65535) * c
            j += 1
    return '%d,%d,%d' % (j, a, b)


SWEEPS = {
    # id: (first index, count, what)
    1: (0, 65536, 'raw -> logical -> raw, all raw values'),
    2: (0, 65536, 'param_8/16/32/bool, time_raw/time_logical, _standardize_raw, round on all raw values'),
    3: (0, 65536, 'raw -> rgb -> raw/logical, every raw hue'),
    4: (-400, 6801, 'logical grid -50..800 step 1/8: logical_to_raw, _pct_to_raw, time, param_*, raw_to_logical'),
    5: (0, 13824, 'rgb triples -10..105 step 5: rgb_to_raw, rgb_to_logical'),
    6: (0, 4913, 'rgb triples 0..100 step 6.25'),
    7: (0, 8833, 'logical -> rgb -> raw/logical grid'),
    8: (0, 32768, 'colorsys.hsv_to_rgb / rgb_to_hsv on fractions k/31'),
}
INT_INPUT_SWEEPS = (1, 2, 3, 5, 7)


def specials():
    big = [1e6, 123456789.5, 1e15, 2.0 ** 52 + 0.5, 2.0 ** 53, 1e22, 1e300, 1.7976931348623157e308]
    tiny = [5e-324, 2.2250738585072014e-308, 1e-300, EPS, EPS * 0.999, EPS * 1.001, 2.0 ** -17, 2.0 ** -18]
    near = [359.99999999999994, 360.00000000000006, 360 - EPS, 360 - EPS * 0.999, 360 + EPS, 360 + EPS * 1.001,
            65534.5, 65535.5, 65534.50000000001, 0.5, 1.5, 2.5, 0.49999999999999994, 4294967294.5, 4294967295.5,
            99.99999999999999, 100.00000000000001, 254.5, 255.5]
    xs = [0.0, -0.0] + big + [-x for x in big] + tiny + [-x for x in tiny] + near + [-x for x in near]
    xs += [float('inf'), float('-inf'), float('nan')]
    return xs


def translator_validation(ctx):
    mirror = Mirror()
    quick = not ctx.thorough()
    shards = []
    for ident, (first, count, what) in sorted(SWEEPS.items()):
        step = 4096
        for s in range(first, first + count, step):
            n = min(step, first + count - s)
            shards.append((ident, s, n))
    # in the quick tier sweep 3 (the slowest) covers every fourth block of 1024 raw hues
    if quick:
        shards = [sh for sh in shards if sh[0] != 3] + [(3, s, 1024) for s in range(0, 65536, 4096)]
    files = ['Eval vm_compute in (sweep_digest %d %s %d).\n' % (ident, common.coq_z(s), n) for ident, s, n in shards]
    # the Python side is computed while the Coq processes run
    import threading
    py = {}
    err = []

    def work():
        try:
            for ident, s, n in shards:
                py[(ident, s, n)] = digest(mirror.sweep(ident, i) for i in range(s, s + n))
        except Exception as ex:      # noqa
            import traceback
            err.append(traceback.format_exc())
    th = threading.Thread(target=work)
    th.start()
    res = common.run_cases('c07swp', MODEL_IMPORT, files, timeout=900)
    th.join()
    if err:
        ctx.broken_tie('correspondence', 'translator-validation: Python original raised', err[0][-1500:])
        return
    bad = []
    total = 0
    for sh, (ok, strs, log) in zip(shards, res):
        total += sh[2]
        if not ok or len(strs) != 1:
            ctx.broken_tie('correspondence', 'translator-validation', 'coq evaluation of sweep %r failed: %s' % (sh, log[-600:]))
            return
        if strs[0] != py[sh]:
            bad.append(sh)
    ctx.count(total)
    ctx.extra['translator_validation'] = {'sweep_points': total, 'shards': len(shards), 'mismatching_shards': len(bad),
                                          'sweeps': {str(k): v[2] for k, v in SWEEPS.items()}}
    for sh in bad[:2]:
        ident, s, n = sh
        out = common.run_cases('c07val', MODEL_IMPORT, ['Eval vm_compute in (sweep_values %d %s %d).\n' % (ident, common.coq_z(s), n)])
        ok, strs, log = out[0]
        detail = {'sweep': ident, 'what': SWEEPS[ident][2], 'shard': [s, n]}
        if ok and strs:
            rows = strs[0].split(';')[:-1]
            for k, row in enumerate(rows):
                want = ','.join(str(c) for c in mirror.sweep(ident, s + k)) + ','
                if row != want:
                    detail.update({'index': s + k, 'generated': row[:300], 'python': want[:300]})
                    break
        ctx.broken_tie('correspondence', 'translator-validation sweep %d' % ident, detail)
    # explicit specials
    xs = specials()
    items = U.coq_eval('c07spc', MODEL_IMPORT, 'special_cases', [coq_f(x) for x in xs], per_file=60)
    for x, it in zip(xs, items):
        ctx.count()
        want = ','.join(str(c) for c in mirror.grid_out(x)) + ','
        if it != want:
            ctx.broken_tie('correspondence', 'translator-validation special value', {'x': x.hex() if U.is_finite(x) else str(x), 'generated': it[:300], 'python': want[:300]})
    # a Python int and its float give the same value (model: one numeric type)
    n_int = 0
    for ident in INT_INPUT_SWEEPS:
        first, count, _ = SWEEPS[ident]
        stride = 97 if quick else 7
        for i in range(first, first + count, stride):
            n_int += 1
            if mirror.sweep(ident, i, as_int=True) != mirror.sweep(ident, i):
                ctx.broken_tie('correspondence', 'int/float agreement', {'sweep': ident, 'index': i,
                               'int': str(mirror.sweep(ident, i, as_int=True))[:300], 'float': str(mirror.sweep(ident, i))[:300]})
                break
    ctx.count(n_int)
    ctx.extra['translator_validation']['specials'] = len(xs)
    ctx.extra['translator_validation']['int_float_agreement_points'] = n_int


# ---------------------------------------------------------------------------
# T2 / O: end to end

def pools(rng):
    def eighth(lo, hi):
        return rng.randrange(int(lo * 8), int(hi * 8) + 1) / 8.0

    def milli(lo, hi):
        return rng.randrange(int(lo * 1000), int(hi * 1000) + 1) / 1000.0

    def tie_pct():
        n = rng.randrange(0, 65535)
        return (n + 0.5) / 655.35

    def tie_hue():
        n = rng.randrange(0, 65535)
        return (n + 0.5) * 360.0 / 65535.0
    p = {}
    p['hue'] = lambda: rng.choice([
        lambda: rng.choice([0, 1, 59, 60, 120, 180, 240, 300, 359, 360, 361, 400, 720, 800, -1, -90, -360, -361]),
        lambda: eighth(-50, 800), lambda: milli(-50, 800), tie_hue,
        lambda: rng.choice([359.9999, 359.99999999, 360.00000001, EPS, EPS * 0.99, 360 - EPS * 0.99, 360 - EPS * 1.01,
                            1e6, 123456789.5, 1e15, 1e22, -1e9, 0.0027, 359.9973])])()
    p['pct'] = lambda: rng.choice([
        lambda: rng.choice([0, 1, 10, 25, 50, 75, 99, 100, 101, 150, 1000, -5, -100]),
        lambda: eighth(-20, 150), lambda: milli(0, 100), tie_pct,
        lambda: rng.choice([12.5, 33.3, 99.9999, 100.0001, 0.0001, EPS, EPS * 0.99, EPS * 1.01, 1e9, -1e9, 0.0008])])()
    p['kelvin'] = lambda: rng.choice([0, 1500, 2500, 2700, 3500, 4000, 6500, 9000, 65535, 65536, 70000, 2700.5, 3500.25,
                                      1500.5, 2501.5, 0.4, 0.5, -100, 1e7, milli(1500, 9000)])
    p['seconds'] = lambda: rng.choice([0, 0, 1, 2, 1.5, 2.5, 0.001, 0.0005, 0.0015, 0.0025, 1.9999, 2.999, 33.3335, 4294967.295,
                                       4294967.2955, 4294968, 5000000, 1e12, -1, -0.5, milli(0, 100), eighth(0, 600)])
    p['ms'] = lambda: rng.choice([0, 0, 1, 2500, 10000, 0.5, 1.5, 2.5, 0.4, 4294967295, 4294967294.5, 4294967295.5, 4294967296,
                                  1e12, -3, -0.5, rng.randrange(0, 100000), eighth(0, 10000)])
    p['raw'] = lambda: rng.choice([
        lambda: rng.choice([0, 1, 2, 255, 256, 32767, 32768, 65534, 65535, 65536, 70000, -1, -65535]),
        lambda: rng.randrange(0, 65536), lambda: rng.randrange(0, 65536) + rng.choice([0.25, 0.5, 0.75]),
        lambda: rng.choice([0.5, 1.5, 2.5, 65534.5, 65535.5, 65534.4999, 0.4999, 1e9, -1e9, 32767.5])])()
    p['rgb'] = lambda: rng.choice([
        lambda: rng.choice([0, 0, 100, 100, 50, 25, 75, 1, 99, 12.5, 33.3, 66.6, 99.5]),
        lambda: eighth(0, 100), lambda: milli(0, 100),
        lambda: rng.choice([120, 150, 1000, -10, -0.5, 100.0001, 0.0001])])()
    p['time_s'] = lambda: rng.choice([0, 0, 0, 0.25, 1, 2.5, 0.001, -1])
    p['time_ms'] = lambda: rng.choice([0, 0, 0, 250, 1000, 0.5, -5])
    return p


def gen_cases(ctx, n_per_mode):
    rng = ctx.rng
    p = pools(rng)
    cases = []
    for mode in U.MODES:
        fixed = {
            'logical': [([120, 100, 100, 2700], 2, 0), ([180, 50, 50, 2700], 0, 0), ([165, 100, 50, 2700], 2.5, 10),
                        ([360, 100, 100, 3500], 1.5, 0), ([0, 0, 0, 0], 0, 0), ([359.5, 12.5, 87.5, 2700.5], 0.0005, 0.25)],
            'raw': [([30000, 65535, 32767, 2700], 2500, 10000), ([0, 0, 0, 0], 0, 0), ([65535, 65535, 65535, 9000], 1, 0),
                    ([11, 22, 33, 2500], 0, 0), ([100.5, 200.5, 65535.5, 2700.5], 2.5, 0.5)],
            'rgb': [([50, 0, 50, 2700], 0, 0), ([80, 80, 80, 2700], 1, 0), ([0, 0, 100, 2500], 3.5, 2.5), ([0, 100, 0, 2500], 1.5, 1.5),
                    ([100, 100, 100, 4000], 0, 0), ([0, 0, 0, 2700], 2, 0), ([0, -0.5, -0.5, 2700], 0, 0), ([-5, 0, -100, 2700], 1, 0), ([12.5, 33.3, 66.6, 3500.5], 0.0015, 0)],
        }[mode]
        for c, d, t in fixed:
            cases.append((mode, c, d, t))
        while len([c for c in cases if c[0] == mode]) < n_per_mode:
            if mode == 'logical':
                c = [p['hue'](), p['pct'](), p['pct'](), p['kelvin']()]
                d, t = p['seconds'](), p['time_s']()
            elif mode == 'raw':
                c = [p['raw'](), p['raw'](), p['raw'](), p['kelvin']()]
                d, t = p['ms'](), p['time_ms']()
            else:
                c = [p['rgb'](), p['rgb'](), p['rgb'](), p['kelvin']()]
                d, t = p['seconds'](), p['time_s']()
            cases.append((mode, c, d, t))
    return cases


def script_for(mode, color, d, t, kinds, on):
    return ('units %s\n%s\n' % (mode, U.settings_text(mode, color, d, t))
            + '\n'.join(U.command_text(k, on) for k in kinds) + '\n')


def fl(x):
    return float(x)


def param_like(x, hi):
    """round(max(0, min(x, hi))) computed independently, for classifying a difference."""
    if math.isnan(x):
        return 0
    return round(max(0.0, min(float(x), float(hi))))


def classify(kind, mode, comp, obs_val, regs, d, verdict):
    """Stable signature of a violation.  comp: 0..3 colour component, 4 duration, 'power'."""
    names = ['hue', 'saturation', 'brightness', 'kelvin', 'duration']
    if comp == 4:
        if kind in ('p-group', 'p-location') and mode != 'raw' and obs_val == param_like(d, 0xffffffff) and obs_val != param_like(float(d) * 1000.0, 0xffffffff):
            return 'C07/group-power-duration-seconds'
        if mode != 'raw' and obs_val == param_like(d, 0xffffffff) and obs_val != param_like(float(d) * 1000.0, 0xffffffff):
            return 'C07/%s-duration-seconds' % kind
    cname = names[comp] if isinstance(comp, int) else comp
    if isinstance(obs_val, int) and not (0 <= obs_val <= (0xffffffff if comp == 4 else 0xffff)):
        return 'C07/%s-%s-%s-out-of-range' % (kind, mode, cname)
    return 'C07/%s-%s-%s-not-nearest' % (kind, mode, cname)


def end_to_end(ctx):
    found = []      # (signature, kind, what, replay) of every oracle disagreement
    quick = not ctx.thorough()
    n_per_mode = 110 if quick else 2500
    cases = gen_cases(ctx, n_per_mode)
    ctx.extra['end_to_end_cases'] = len(cases)
    worlds = {}
    observations = []      # dict(case index, world, kind, on, obs=('color',[4],dur)|('power',p,dur), script)
    waits = []             # (case index, world, mode, t, [pauses])
    for wk in ('fakes', 'wire'):
        worlds[wk] = U.World(wk)
        kinds = [k for k in U.KINDS if not (wk == 'fakes' and k == 'matrix')]
        for ci, (mode, color, d, t) in enumerate(cases):
            on = (ci % 3 != 0)
            src = script_for(mode, color, d, t, kinds, on)
            r = U.run_script(worlds[wk], src)
            if not r.compiled:
                raise RuntimeError('generated script does not compile: %r %r' % (src, r.errors))
            if r.errors and mode == 'rgb' and 'division by zero' in r.errors[0] and max(color[:3]) <= 0 and min(color[:3]) < 0:
                # colorsys.rgb_to_hsv divides by the largest component: D62, repaired in units.py (KNOWN_FINDINGS.txt)
                ctx.counterexample('C07/rgb-no-positive-component-divides-by-zero',
                                   'rgb units with no positive and at least one negative component (%r): %s' % (list(color[:3]), r.errors[0][:120]),
                                   {'script': src, 'world': wk, 'errors': r.errors})
                continue
            if r.errors:
                ctx.counterexample('C07/script-aborted', 'a script that only sets registers and issues commands is aborted: %s; script %r'
                                   % (r.errors[0][:200], src), {'script': src, 'world': wk, 'errors': r.errors})
                continue
            try:
                ext = U.extract(wk, r.calls, kinds)
            except ValueError as ex:
                ctx.counterexample('C07/unexpected-calls', 'calls arriving at the lights do not match the commands issued: %s; script %r' % (ex, src),
                                   {'script': src, 'world': wk})
                continue
            for k in kinds:
                for o in ext[k]:
                    observations.append({'ci': ci, 'world': wk, 'kind': k, 'on': on, 'obs': o, 'script': src,
                                         'case': (mode, color, d, t)})
            waits.append((ci, wk, mode, t, list(r.pauses), len(kinds), src))
    ctx.stage('scripts')

    # every transmitted number is an int in range (independently of Coq)
    for ob in observations:
        o = ob['obs']
        vals = (list(o[1]) if o[0] == 'color' else [o[1]]) + [o[2]]
        mode, color, d, t = cases[ob['ci']]
        for idx, v in enumerate(vals):
            hi = 0xffffffff if idx == len(vals) - 1 else 0xffff
            if not (isinstance(v, int) and not isinstance(v, bool) and 0 <= v <= hi):
                comp = 4 if idx == len(vals) - 1 else (idx if o[0] == 'color' else 'power')
                cname = ['hue', 'saturation', 'brightness', 'kelvin', 'duration'][comp] if isinstance(comp, int) else comp
                sig = 'C07/%s-%s-%s-out-of-range' % (ob['kind'], mode, cname)
                found.append((sig, ob, '%s in %s units with registers %r duration %r hands the light %r: not an integer the protocol can carry'
                              % (ob['kind'], mode, color, d, o),
                              {'script': ob['script'], 'world': ob['world'], 'kind': ob['kind'], 'mode': mode,
                               'observed': [list(o[1]), o[2]] if o[0] == 'color' else [o[1], o[2]]}))

    # oracle: the specification judges each distinct observation
    mi = {'logical': 0, 'raw': 1, 'rgb': 2}
    color_keys, power_keys = {}, {}
    for ob in observations:
        mode, color, d, t = cases[ob['ci']]
        o = ob['obs']
        if o[0] == 'color':
            key = (mode, tuple(fl(x) for x in color), fl(d), tuple(o[1]), o[2])
            color_keys.setdefault(key, []).append(ob)
        else:
            key = (mode, fl(d), ob['on'], o[1], o[2])
            power_keys.setdefault(key, []).append(ob)
    ckeys = list(color_keys)
    rendered = ['(%d, %s, %s, %s)' % (mi[k[0]], common.coq_list([coq_f(x) for x in k[1]]), coq_f(k[2]),
                                      common.coq_list([common.coq_z(int(z)) for z in list(k[3]) + [k[4]]])) for k in ckeys]
    verdicts = U.coq_eval('c07spec', SPEC_IMPORT, 'spec_color_cases', rendered, per_file=300)
    tol_used = 0
    exact_agree = 0
    for k, v in zip(ckeys, verdicts):
        ctx.count(len(color_keys[k]))
        tol_used += v.count('~')
        exact_agree += v.count('=')
        if '!' in v:
            comp = v.index('!')
            ob = color_keys[k][0]
            mode, color, d, t = cases[ob['ci']]
            obs_val = (list(k[3]) + [k[4]])[comp]
            sig = classify(ob['kind'], mode, comp, obs_val, color, d, v)
            if ob['kind'] == 'matrix' and sig.endswith('not-nearest'):
                sig = 'C07/matrix-cell-rounded-before-conversion' if prerounded_explains(mode, color, k[3]) else sig
            found.append((sig, ob, '%s in %s units with registers %r duration %r hands the light colour %r duration %r; verdict per integer %s (= nearest, ~ within 1e-9 of a tie, ! wrong)'
                               % (ob['kind'], mode, color, d, list(k[3]), k[4], v),
                               {'script': ob['script'], 'world': ob['world'], 'kind': ob['kind'], 'mode': mode, 'registers': [repr(x) for x in color],
                                'duration': repr(d), 'observed': [list(k[3]), k[4]], 'verdict': v,
                                'kinds': sorted({o['kind'] for o in color_keys[k]})}))
    pkeys = list(power_keys)
    rendered = ['(%d, %s, %s, %s, %s)' % (mi[k[0]], coq_f(k[1]), common.coq_bool(k[2]), common.coq_z(int(k[3])), common.coq_z(int(k[4]))) for k in pkeys]
    verdicts = U.coq_eval('c07pow', SPEC_IMPORT, 'spec_power_cases', rendered, per_file=400)
    for k, v in zip(pkeys, verdicts):
        ctx.count(len(power_keys[k]))
        tol_used += v.count('~')
        exact_agree += v.count('=')
        if '!' in v:
            ob = power_keys[k][0]
            mode, color, d, t = cases[ob['ci']]
            comp = 'power' if v[0] == '!' else 4
            sig = classify(ob['kind'], mode, comp, k[3] if comp == 'power' else k[4], color, d, v)
            found.append((sig, ob, '`%s` in %s units with duration %r hands the light power %r duration %r (expected duration %s ms); verdict %s'
                               % (U.command_text(ob['kind'], ob['on']), mode, d, k[3], k[4],
                                  'the same number of' if mode == 'raw' else 'seconds*1000 =', v),
                               {'script': ob['script'], 'world': ob['world'], 'kind': ob['kind'], 'mode': mode, 'duration': repr(d),
                                'observed': [k[3], k[4]], 'verdict': v,
                                'kinds': sorted({o['kind'] for o in power_keys[k]})}))
    report(ctx, worlds, found)
    ctx.extra['oracle'] = {'distinct_colour_observations': len(ckeys), 'distinct_power_observations': len(pkeys),
                           'integers_equal_to_nearest': exact_agree, 'integers_accepted_within_1e-9_of_a_tie': tol_used}
    ctx.stage('oracle')

    # waits: one pause per command, each seconds*1000 ms (None when time <= 0)
    wkeys = {}
    for ci, wk, mode, t, pauses, ncmd, src in waits:
        expected_n = ncmd if float(t) > 0 else 0
        if len(pauses) != expected_n or any(isinstance(x, tuple) for x in pauses):
            ctx.counterexample('C07/wait-count', 'time %r in %s units: %d commands made %d pauses' % (t, mode, ncmd, len(pauses)), {'script': src, 'world': wk})
            continue
        for ps in set(pauses) or {None}:
            wkeys.setdefault((mode, fl(t), ps), src)
    wk_sorted = sorted(wkeys, key=repr)
    rendered = ['(%d, %s, %s)' % (mi[k[0]], coq_f(k[1]), 'None' if k[2] is None else '(Some %s)' % coq_f(k[2])) for k in wk_sorted]
    verdicts = U.coq_eval('c07dly', SPEC_IMPORT, 'spec_delay_cases', rendered, per_file=400)
    for k, v in zip(wk_sorted, verdicts):
        ctx.count()
        if v != '=':
            ctx.counterexample('C07/%s-delay-not-seconds-times-1000' % k[0], 'time %r in %s units pauses for %r seconds' % (k[1], k[0], k[2]),
                               {'script': wkeys[k], 'mode': k[0], 'time': repr(k[1]), 'pause': repr(k[2])})

    # correspondence: the model computes exactly what arrived (wire population; for the
    # repository's fakes the colour kinds, whose clamping is the same)
    if ctx.model_runnable:
        ki = {k: i for i, k in enumerate(U.KINDS)}
        mkeys = {}
        for ob in observations:
            mode, color, d, t = cases[ob['ci']]
            o = ob['obs']
            if ob['world'] == 'fakes' and o[0] == 'power':
                continue
            want = ('C' + ''.join('%d,' % z for z in o[1]) + str(o[2])) if o[0] == 'color' else 'P%d,%d' % (o[1], o[2])
            key = (ki[ob['kind']], mi[mode], tuple(fl(x) for x in color), ob['on'], fl(d))
            mkeys.setdefault(key, set()).add((want, ob['world'], ob['script']))
        mk_sorted = sorted(mkeys, key=repr)
        rendered = ['(%d, %d, %s, %s, %s)' % (k[0], k[1], common.coq_list([coq_f(x) for x in k[2]]), common.coq_bool(k[3]), coq_f(k[4])) for k in mk_sorted]
        got = U.coq_eval('c07mod', MODEL_IMPORT, 'model_cases', rendered, per_file=400)
        nbad = 0
        for k, g in zip(mk_sorted, got):
            for want, wk, src in mkeys[k]:
                if g != want:
                    nbad += 1
                    if nbad <= 3:
                        ctx.broken_tie('correspondence', 'transmit vs model (%s)' % U.KINDS[k[0]],
                                       {'kind': U.KINDS[k[0]], 'mode': U.MODES[k[1]], 'registers': [repr(x) for x in k[2]], 'duration': repr(k[4]),
                                        'implementation': want, 'model': g, 'world': wk, 'script': src})
        ctx.extra['model_comparisons'] = len(mk_sorted)
        # waits vs model
        dk = sorted({(k[0], k[1], k[2]) for k in wkeys}, key=repr)
        rendered = ['(%d, %s)' % (mi[k[0]], coq_f(k[1])) for k in dk]
        got = U.coq_eval('c07mdl', MODEL_IMPORT, 'model_delay_cases', rendered, per_file=400)
        for k, g in zip(dk, got):
            want = 'N' if k[2] is None else str(float_code(k[2]))
            if g != want:
                ctx.broken_tie('correspondence', 'wait vs model', {'mode': k[0], 'time': repr(k[1]), 'implementation': repr(k[2]), 'model': g})
    ctx.stage('model')

    for ob in observations[:2] + observations[len(observations) // 2:len(observations) // 2 + 2]:
        mode, color, d, t = cases[ob['ci']]
        ctx.sample({'mode': mode, 'registers': [repr(x) for x in color], 'duration': repr(d), 'kind': ob['kind'], 'world': ob['world'], 'arrived': repr(ob['obs'])})
    for ci, (mode, color, d, t) in enumerate(cases):
        ctx.nontriv((mode, tuple(repr(x) for x in color), repr(d), repr(t)))
    ctx.extra['observations'] = len(observations)
    ctx.extra['kinds'] = U.KINDS
    non_finite(ctx, worlds)
    default_colour(ctx, worlds, cases)
    get_roundtrip(ctx, worlds)


def report(ctx, worlds, found):
    """One counterexample per defect rather than per command kind: a disagreement that shows on
    the plain `set "light"` / `on "light"` path (or on most kinds) is reported once, without the
    kind in its signature; one that is specific to some kinds names the kind.  At most ten."""
    groups = {}
    for sig, ob, what, payload in found:
        parts = sig.split('/', 1)[1].split('-')
        kind = ob['kind']
        generic = sig.endswith('-not-nearest') or sig.endswith('-out-of-range')
        base = sig.replace('C07/%s-' % kind, 'C07/', 1) if generic and sig.startswith('C07/%s-' % kind) else sig
        groups.setdefault(base, []).append((sig, ob, what, payload, generic))
    n = 0
    for base, items in groups.items():
        kinds = {k for it in items for k in it[3].get('kinds', [it[1]['kind']])}
        if items[0][4] and ('light' in kinds or 'p-light' in kinds or len(kinds) >= 4):
            chosen = [min(items, key=lambda it: (it[1]['kind'] not in ('light', 'p-light'), it[1]['ci']))]
            sigs = [base]
        else:
            seen, chosen, sigs = set(), [], []
            for it in items:
                if it[0] not in seen:
                    seen.add(it[0])
                    chosen.append(it)
                    sigs.append(it[0])
        for sig, it in zip(sigs, chosen):
            if n >= 10:
                return
            n += 1
            payload = dict(it[3])
            payload['script'] = minimal(worlds, it[1])
            payload['kinds_affected'] = sorted(kinds)
            ctx.counterexample(sig, it[2], payload)


def minimal(worlds, ob):
    """The smallest script that shows the same observation (falls back to the full one)."""
    mode, color, d, t = ob['case']
    src = script_for(mode, color, d, t if float(t) > 0 else None, [ob['kind']], ob['on'])
    if not float(d):
        src2 = script_for(mode, color, None, None, [ob['kind']], ob['on'])
    else:
        src2 = None
    for cand in ([src2] if src2 else []) + [src]:
        r = U.run_script(worlds[ob['world']], cand)
        try:
            ext = U.extract(ob['world'], r.calls, [ob['kind']])
        except ValueError:
            continue
        if ob['obs'] in ext[ob['kind']]:
            return cand
    return ob['script']


def prerounded_explains(mode, color, observed):
    """Would converting the clamped-and-rounded logical/rgb values give what was observed?"""
    try:
        from bardolph.controller import units
        from bardolph.controller.color_matrix import ColorMatrix
        from bardolph.lib.param_helper import param_color
        pre = ColorMatrix._standardize_raw(list(color))
        fn = units.convert_fn({'logical': units.UnitMode.LOGICAL, 'rgb': units.UnitMode.RGB}[mode], units.UnitMode.RAW)
        return ColorMatrix._standardize_raw(fn(pre)) == list(observed)
    except Exception:
        return False


def non_finite(ctx, worlds):
    """Registers holding inf / nan / numbers beyond any range: whatever is transmitted is in range
    ("whatever the register contents"); an aborted script transmits nothing, which is in range."""
    pre = 'assign inf {10.0^308 * 10.0}\nassign ninf {0 - inf}\nassign nan {inf - inf}\nassign big {10^400}\n'
    vals = ['inf', 'ninf', 'nan', 'big', '{0 - big}', '0']
    n = 0
    for wk, w in worlds.items():
        kinds = [k for k in U.KINDS if not (wk == 'fakes' and k == 'matrix')]
        for mode in U.MODES:
            names = ('red', 'green', 'blue') if mode == 'rgb' else ('hue', 'saturation', 'brightness')
            for a in vals:
                for b in vals[:3] + ['50']:
                    for k in kinds:
                        src = (pre + 'units %s\n%s %s %s %s %s %s kelvin %s duration %s\n%s\n'
                               % (mode, names[0], a, names[1], b, names[2], a, b, a, U.command_text(k)))
                        r = U.run_script(w, src)
                        n += 1
                        ctx.count()
                        if not r.compiled:
                            raise RuntimeError('non-finite script does not compile: %r %r' % (src, r.errors))
                        for name, lst in r.calls.items():
                            for e in lst:
                                nums = []
                                for x in e[1:]:
                                    if isinstance(x, list):
                                        for y in x:
                                            nums += y if isinstance(y, list) else [y]
                                    else:
                                        nums.append(x)
                                dur = nums[-1]
                                okc = all(isinstance(v, int) and 0 <= v <= 0xffff for v in nums[:-1])
                                okd = isinstance(dur, int) and 0 <= dur <= 0xffffffff
                                if not (okc and okd):
                                    ctx.counterexample('C07/%s-non-finite-out-of-range' % mode,
                                                       'registers %s/%s in %s units: light %s is handed %r' % (a, b, mode, name, e),
                                                       {'script': src, 'world': wk})
    ctx.extra['non_finite_scripts'] = n


def default_colour(ctx, worlds, cases):
    """`set default` keeps the colour of the registers for the cells a later matrix command leaves unstaged: those cells
    are handed the integers a plain `set` with the same registers hands its light (judged by the specification in the
    main stage), in every unit mode."""
    w = worlds['wire']
    n = 0
    for ci, (mode, color, d, t) in enumerate(cases):
        if ci % 4 and not ctx.thorough():
            continue
        other = {'logical': 'hue 200 saturation 40 brightness 60 kelvin 4000', 'raw': 'hue 7 saturation 8 brightness 9 kelvin 4000',
                 'rgb': 'red 10 green 90 blue 40 kelvin 4000'}[mode]
        src = ('units %s\n%s\nset "L1"\nset default\n%s\nset "M" row 1 2 column 0 1\n' % (mode, U.settings_text(mode, color, 0, 0), other))
        r = U.run_script(w, src)
        if not r.compiled:
            raise RuntimeError('default-colour script does not compile: %r %r' % (src, r.errors))
        if r.errors:
            continue    # judged in the main stage (same registers)
        n += 1
        ctx.count()
        sent = [e for e in r.calls.get('L1', []) if e[0] == 'color']
        mats = [e for e in r.calls.get('M', []) if e[0] == 'matrix']
        if len(sent) != 1 or len(mats) != 1:
            ctx.counterexample('C07/unexpected-calls', 'default-colour script: calls %r' % ({k: len(v) for k, v in r.calls.items()},), {'script': src, 'world': 'wire'})
            continue
        cells = mats[0][1]
        others = [cells[i] for i in range(30) if i not in (5, 6, 10, 11)]
        wrong = [o for o in others if list(o) != list(sent[0][1])]
        if wrong:
            ctx.counterexample('C07/default-colour-cells-not-converted',
                               'a default colour defined in %s units with registers %r reaches the unstaged cells of a matrix as %r; `set` with the same registers sends %r'
                               % (mode, color, list(wrong[0]), list(sent[0][1])), {'script': src, 'world': 'wire', 'mode': mode})
    ctx.extra['default_colour_scripts'] = n


def get_roundtrip(ctx, worlds):
    """`get` in logical units followed by `set`: a raw colour read from a light and expressed in
    logical units converts back to the same raw colour (hue 65535 = 0).  Here on the real
    pipeline for sampled raw colours (the theorems and sweep 1 cover all 65 536 values)."""
    rng = ctx.rng
    w = worlds['wire']
    dev = [d for d in w.lan.devices if d.label == 'L1'][0]
    n = 300 if not ctx.thorough() else 5000
    bad = 0
    for i in range(n):
        # each component on its own: an end of the range or anything (one component at full scale next to others that are not)
        comp = lambda: rng.choice([0, 65535, 65534, 1, rng.randrange(0, 65536), rng.randrange(0, 65536), rng.randrange(0, 65536)])
        raw = [comp(), comp(), comp(), rng.randrange(1500, 9001)]
        fixed = [[0, 0, 0, 2700], [65535, 65535, 65535, 9000], [65534, 1, 65534, 1500], [1, 65534, 1, 2500],
                 [32767, 32768, 32767, 3500], [32768, 32767, 32768, 4000], [21845, 43690, 10922, 2700], [65535, 0, 0, 0],
                 [100, 65535, 300, 3500], [100, 300, 65535, 3500], [65535, 65535, 12345, 2700], [0, 65535, 0, 2700], [12345, 0, 65535, 2700]]
        if i < len(fixed):
            raw = fixed[i]
        dev.color = list(raw)
        r = U.run_script(w, 'units logical\nget "L1"\nset "L1"\n')
        ctx.count()
        sent = [e for e in r.calls.get('L1', []) if e[0] == 'color']
        want = [0 if raw[0] == 65535 else raw[0]] + raw[1:]
        if r.errors or len(sent) != 1 or ([0 if sent[0][1][0] == 65535 else sent[0][1][0]] + sent[0][1][1:]) != want:
            bad += 1
            ctx.counterexample('C07/get-set-roundtrip', 'raw colour %r read with `get` in logical units and set again arrives as %r'
                               % (raw, sent[0][1] if sent else r.errors), {'raw': raw, 'script': 'units logical get "L1" set "L1"'})
    dev.color = [0, 0, 0, 0]
    ctx.extra['get_set_roundtrips'] = n


def run(ctx):
    U.fix_axioms(ctx)
    ctx.rule = ('register contents drawn from pools of integers, eighths, thousandths, rounding ties, values beyond the valid '
                'ranges and huge values, in each unit mode; each case is run through all ten command kinds in two device '
                'populations; a case is non-trivial when at least one command transmitted; distinct = distinct '
                '(mode, registers, duration, time); sweep points of the translator validation are counted as evaluations')
    ctx.assumptions += ['Python ints in registers are below 2^53 in magnitude (larger ones are exercised for range safety only)',
                        'None-valued registers/colours are outside the model (@noneable)',
                        'statements over exact rationals (Q) describe the formulas as real arithmetic; binary64 statements are bit-exact; '
                        'the two are related by the oracle runs, not by a theorem (DESIGN section 9)']
    ctx.exhaustive = True      # the raw-value sweeps are complete: 65 536 values per component
    if ctx.model_runnable:
        try:
            translator_validation(ctx)
        except Exception:
            # e.g. a Python original that raises where the translated function is total; the
            # end-to-end runs below then look for an input on which the property itself fails
            import traceback
            ctx.broken_tie('correspondence', 'translator-validation raised', traceback.format_exc()[-2000:])
        ctx.stage('translator-validation')
    end_to_end(ctx)
    ctx.stage('end-to-end')


def replay(ctx, payload):
    inp = payload.get('input', {})
    src = inp.get('script')
    if not src:
        print('replay: no script in the payload')
        return False
    w = U.World(inp.get('world', 'wire'))
    r = U.run_script(w, src)
    print('script:\n' + src)
    print('errors: %r' % r.errors)
    for name, lst in sorted(r.calls.items()):
        if lst:
            print('  %s <- %r' % (name, lst))
    if 'observed' in inp and 'kind' in inp:
        again = [e for lst in r.calls.values() for e in lst]
        same = any(list(e[1:]) == list(inp['observed']) or [e[-2], e[-1]] == list(inp['observed']) for e in again)
        print('the recorded observation %r %s' % (inp['observed'], 'REPRODUCES' if same else 'does not reproduce'))
        return not same
    return not r.errors
