"""C18 -- replaying a captured snapshot script restores the captured light state exactly.

Per case: a population mixing plain, multizone (1..16 zones) and matrix lights (1..8 x 1..8) with names over
printable ASCII plus selected non-ASCII characters (no double quote, no line break), a random captured raw state
(components 0..65535 with the extremes forced often, power on/off) and a random different state at replay time.
  1. ScriptSnapshot().generate(None).text (and the text WebApp.snapshot would write) == snapshot_text of the model;
  2. the text compiles (real Parser); the parser model turns the text into the instructions of snapshot_ast;
  3. the reference semantics runs snapshot_ast to exactly replay_events (for which C18_replay_restores is proved);
  4. the real Machine runs the compiled script on the simulated devices put into the other state: afterwards every
     plain light has the captured colour and power, every zone and every matrix cell its captured colour."""
import copy
import common
import lang
from common import coq_str

MODEL_TARGETS = ['Run/SnapshotShow.vo']
EXTRA_TARGETS = MODEL_TARGETS

NAME_ALPHA = 'abcXYZ019 _-.#{}[]()+*/%^<>=!:,;\'`~@$&|?\\\t'
SPECIAL_NAMES = ['-', '{', '}', '[', ']', '#', '# x', 'and', 'or', 'end', 'begin', 'all', 'a\\', '\\', 'a\\\\', '12:30', '*:*', 'zone', 'hue 5', 'H', ' lead',
                 'trail ', '  ', 'set "', 'été', '中文', '\U0001F4A1', 'Ünï', 'a\tb', "it's", '%s', '{}', '{0}', 'on', 'off', 'stage row 1', '0', '007', '1.5', '-3',
                 # separators other than the line breaks (LF, CR) are ordinary characters of a name
                 'a\x1cb', 'x\x0by', 'p\x0cq', '\x1d', 'n\x1e', 'u\x1f', 'nel\x85', 'ls\u2028x', 'ps\u2029']


def rnd_component(rng):
    r = rng.random()
    if r < 0.15:
        return rng.choice([0, 65535])
    if r < 0.3:
        return rng.choice([1, 2, 99, 100, 101, 359, 360, 361, 1000, 2500, 9000, 32767, 32768, 65534])
    return rng.randint(0, 65535)


_POOL = []


def rnd_color(rng):
    # colours repeat across zones, cells and lights (a writer that skips "unchanged" settings must still be right)
    if _POOL and rng.random() < 0.4:
        return list(rng.choice(_POOL))
    c = [rnd_component(rng) for _ in range(4)]
    _POOL.append(c)
    if len(_POOL) > 6:
        del _POOL[0]
    return c


EDGE_NAMES = ['Bedside lamp ', ' Alcove strip', 'Candle\t', '\tx', ' ', ' both ', 'C:\\', 'Stairs up\\', '\\', 'a\\b', '\\Tube']


def gen_population(rng, forced=()):
    del _POOL[:]
    n = rng.choice([0, 1, 1, 2, 3, 4, 6])
    names = set(forced)
    n = max(n, len(names))
    while len(names) < n:
        if rng.random() < 0.35:
            nm = rng.choice(SPECIAL_NAMES)
        else:
            nm = ''.join(rng.choice(NAME_ALPHA) for _ in range(rng.randint(1, 8)))
        if '"' in nm or '\n' in nm or not nm:
            continue
        names.add(nm)
    pop = []
    for nm in sorted(names):
        r = rng.random()
        if r < 0.45:
            kind = ('plain',)
            state = {'color': rnd_color(rng), 'power': rng.random() < 0.5}
        elif r < 0.75:
            z = rng.choice([1, 2, 3, 8, 15, 16])
            kind = ('multi', z)
            state = {'zones': [rnd_color(rng) for _ in range(z)]}
        else:
            h, w = rng.choice([(1, 1), (1, 5), (2, 2), (3, 4), (6, 5), (8, 8), (5, 1)])
            kind = ('matrix', h, w)
            state = {'cells': [rnd_color(rng) for _ in range(h * w)]}
        pop.append((nm, kind, state))
    return pop


def other_state(rng, pop):
    out = []
    for nm, kind, st in pop:
        if kind[0] == 'plain':
            out.append({'color': rnd_color(rng), 'power': rng.random() < 0.5})
        elif kind[0] == 'multi':
            out.append({'zones': [rnd_color(rng) for _ in st['zones']]})
        else:
            out.append({'cells': [rnd_color(rng) for _ in st['cells']]})
    return out


def put_state(light, kind, st):
    from bardolph.controller.color_matrix import ColorMatrix
    if kind[0] == 'plain':
        light._color = list(st['color'])
        light._power = 65535 if st['power'] else 0
    elif kind[0] == 'multi':
        light._zone_colors = [list(c) for c in st['zones']]
    else:
        light._matrix = ColorMatrix.new_from_iterable(kind[1], kind[2], iter([list(c) for c in st['cells']]))


def read_state(light, kind):
    if kind[0] == 'plain':
        return {'color': list(light._color), 'power': bool(light._power)}
    if kind[0] == 'multi':
        return {'zones': [list(c) for c in light._zone_colors]}
    m = light._matrix
    return {'cells': [list(m.matrix[r][c]) for r in range(m.height) for c in range(m.width)]}


def coq_color(c):
    return '[' + '; '.join(str(x) for x in c) + ']'


def coq_population(pop):
    items = []
    for nm, kind, st in pop:
        if kind[0] == 'plain':
            s = '(DPlain %s %s)' % (coq_color(st['color']), 'true' if st['power'] else 'false')
        elif kind[0] == 'multi':
            s = '(DMulti [%s])' % '; '.join(coq_color(c) for c in st['zones'])
        else:
            s = '(DMatrix %d %d [%s])' % (kind[1], kind[2], '; '.join(coq_color(c) for c in st['cells']))
        items.append('(mkDevice %s %s)' % (coq_str(nm), s))
    return '[' + '; '.join(items) + ']'


def world_of(pop):
    return [(nm, 'g', 'l', kind) for nm, kind, _ in pop]


class PowerMemory:
    """the repository's simulated lights log set_power without keeping the value; the harness keeps it"""

    def __enter__(self):
        from bardolph.fakes import fake_light
        self.mod = fake_light
        self.orig = fake_light.Light.set_power

        def set_power(this, power, duration):
            self.orig(this, power, duration)
            this._power = 65535 if power else 0
        fake_light.Light.set_power = set_power
        return self

    def __exit__(self, *a):
        self.mod.Light.set_power = self.orig


_WEB = {}


def web_capture(ctx, pop, lights, text):
    """Press Capture with every component at 65535 (a long script), then with the real state; return the file's content."""
    import os
    import tempfile
    try:
        if 'mod' not in _WEB:
            import flask_stub
            flask_stub.install()
            from web import web_app
            _WEB['mod'] = web_app
            _WEB['dir'] = tempfile.mkdtemp(prefix='c18web')
        from bardolph.lib import settings
        settings.Settings._the_config['script_path'] = _WEB['dir']
        big = [65535, 65535, 65535, 65535]
        for nm, kind, st in pop:
            put_state(lights[nm], kind, {'color': big, 'power': True, 'zones': [big] * len(st.get('zones', [])), 'cells': [big] * len(st.get('cells', []))})
        _WEB['mod'].WebApp.snapshot(object())
        for nm, kind, st in pop:
            put_state(lights[nm], kind, st)
        _WEB['mod'].WebApp.snapshot(object())
        with open(os.path.join(_WEB['dir'], '__snapshot__.ls')) as f:
            return f.read()
    except Exception as ex:
        if not _WEB.get('reported'):
            _WEB['reported'] = True
            ctx.broken_tie('harness', 'web capture', '%s: %s' % (type(ex).__name__, str(ex)[:200]))
        return None


def one_case(ctx, rng, pop):
    from bardolph.lib import injection
    from bardolph.controller import i_controller
    from bardolph.controller.snapshot import ScriptSnapshot
    rec = lang.Recorder()
    world = world_of(pop)
    orig = lang.install_world(world, rec)
    res = {'pop': pop}
    try:
        light_set = injection.provide(i_controller.LightSet)
        lights = {nm: light_set.get_light(nm) for nm, _, _ in pop}
        if any(l is None for l in lights.values()):
            # the directory was discovered from exactly these lights: a name it does not know is a name the capture will write
            # and the replay will not find
            missing = [nm for nm, l in lights.items() if l is None]
            ctx.counterexample('C18/directory-does-not-know-a-discovered-light',
                               'after discovery the light set has no light under the name(s) %r that the lights report: a capture lists them, the replay cannot address them'
                               % missing[:3], {'population': pop, 'names_known': list(light_set.get_light_names())[:10]})
            res['skip'] = 'light set does not know a generated name'
            return res
        for nm, kind, st in pop:
            put_state(lights[nm], kind, st)
        try:
            text = ScriptSnapshot().generate(None).text
        except Exception as ex:
            ctx.counterexample('C18/capture-raises', 'capturing the population raises %s: %s' % (type(ex).__name__, str(ex)[:80]), {'population': pop})
            return res
        res['text'] = text
        # the web Capture button: WebApp.snapshot writes the same text to <script_path>/__snapshot__.ls; pressed twice,
        # the file holds the second capture only
        web_text = web_capture(ctx, pop, lights, text)
        if web_text is not None and web_text != text:
            ctx.counterexample('C18/web-capture-file-differs', 'after two presses of Capture the file __snapshot__.ls is not the script of the current state: %r ... instead of %r ...'
                               % (web_text[-60:], text[-60:]), {'population': pop, 'text': text, 'file': web_text})
        for nm, kind, st in pop:
            if read_state(lights[nm], kind) != st:
                ctx.counterexample('C18/capture-changes-state', 'capturing changed the state of %r' % nm, {'population': pop})
        try:
            prog, errors = lang.compile_script(text)
        except Exception as ex:
            ctx.counterexample('C18/snapshot-compile-raises', 'compiling the snapshot raises %s' % type(ex).__name__, {'population': pop, 'text': text})
            return res
        if prog is None:
            bad = [nm for nm, _, _ in pop if lang.compile_script('set "%s"' % nm)[0] is None]
            ctx.counterexample('C18/snapshot-does-not-compile', 'the snapshot script is rejected (%s); names that cannot be written as a string: %r' % (errors.strip()[:100], bad[:3]),
                               {'population': pop, 'text': text})
            return res
        res['program'] = lang.show_program(prog)
        other = other_state(rng, pop)
        for (nm, kind, _), st in zip(pop, other):
            put_state(lights[nm], kind, st)
        del rec.events[:]
        from bardolph.vm.machine import Machine
        m = Machine()
        m.reset()
        try:
            m.run(prog)
        except Exception as ex:
            ctx.counterexample('C18/replay-raises', 'replaying the snapshot raises %s' % type(ex).__name__, {'population': pop, 'text': text})
            return res
        res['events'] = [e for e in rec.events]
        for nm, kind, st in pop:
            got = read_state(lights[nm], kind)
            if got != st:
                what = 'colour' if kind[0] == 'plain' and got['color'] != st['color'] else ('power' if kind[0] == 'plain' else ('zones' if kind[0] == 'multi' else 'cells'))
                ctx.counterexample('C18/replay-does-not-restore-%s-%s' % (kind[0], what),
                                   'after the replay the %s light %r has %s instead of the captured %s' % (kind[0], nm, str(got)[:120], str(st)[:120]),
                                   {'population': pop, 'replay_state': other, 'text': text})
                break
        waits = [e for e in rec.events if e.startswith('W|') or e.startswith('U|')]
        if waits:
            ctx.counterexample('C18/replay-waits', 'the replay requests delays: %r' % waits[:3], {'population': pop, 'text': text})
    finally:
        lang.uninstall(orig)
    return res


def run(ctx):
    lang.ensure_env()
    rng = ctx.rng
    ctx.rule = ('populations of 0-6 lights (plain / multizone 1..16 zones / matrix up to 8 x 8), names over printable ASCII, marks, keywords and non-ASCII, '
                'captured components uniform in 0..65535 with extremes and unit-conversion landmarks forced; non-trivial = at least one light; '
                'distinct = distinct (population, captured state)')
    ctx.assumptions += ['the simulated multizone light reports at most 16 zones (get_zone_colors default range of the fake)',
                        'the simulated lights do not keep the power they are sent: the harness adds that memory around fake_light.Light.set_power',
                        'the web Capture button writes the same ScriptSnapshot text to a file (web_app.WebApp.snapshot, compared textually in C20 runs)']
    n = 1500 if ctx.thorough() else 150
    cases = []
    with PowerMemory():
        for i in range(n):
            # names with white space at an edge, or ending in a backslash: first a population of each, then by chance
            forced = [EDGE_NAMES[i]] if i < len(EDGE_NAMES) else (rng.sample(EDGE_NAMES, rng.randint(1, 3)) if rng.random() < 0.1 else [])
            pop = gen_population(rng, forced)
            r = one_case(ctx, rng, pop)
            ctx.count()
            if pop:
                ctx.nontriv(str(pop))
            cases.append(r)
    ctx.stage('implementation')
    dist = {'plain': 0, 'multi': 0, 'matrix': 0, 'special_names': 0}
    for r in cases:
        for nm, kind, _ in r['pop']:
            dist[kind[0]] += 1
            if nm in SPECIAL_NAMES:
                dist['special_names'] += 1
    ctx.extra['population_distribution'] = dist
    if ctx.model_runnable:
        sel = [r for r in cases if 'text' in r and all(ord(c) < 128 for nm, _, _ in r['pop'] for c in nm)]
        bodies = []
        for r in sel:
            p = coq_population(r['pop'])
            w = lang.coq_world(world_of(r['pop']))
            bodies.append('Eval vm_compute in (snap_text %s).\nEval vm_compute in (snap_parse %s).\nEval vm_compute in (snap_run 30000 %s %s).\n' % (p, p, p, w))
        packed = [''.join(bodies[k:k + 10]) for k in range(0, len(bodies), 10)]
        res = common.run_cases('c18', 'From Bardolph Require Import Run.SnapshotShow Lang.Snapshot Lang.World.', packed)
        out = []
        ok_all = True
        for ok, strs, log in res:
            if not ok:
                ctx.broken_tie('correspondence', 'snapshot model evaluation failed', log[-800:])
                ok_all = False
                break
            out += strs
        if ok_all:
            bad = 0
            for k, r in enumerate(sel):
                mtext, mparse, mrun = out[3 * k:3 * k + 3]
                ctx.count()
                if mtext != lang.show_str(r['text']):
                    bad += 1
                    if bad <= 3:
                        ctx.broken_tie('correspondence', 'ScriptSnapshot text vs snapshot_text', {'population': r['pop'], 'implementation': r['text'][:300], 'model': mtext[:300]})
                if 'program' in r and mparse != 'A#' + r['program']:
                    bad += 1
                    if bad <= 3:
                        ctx.broken_tie('correspondence', 'compiled snapshot vs parser model / snapshot_ast', {'population': r['pop'], 'implementation': r['program'][:300], 'model': mparse[:400]})
                if mrun != 'T':
                    bad += 1
                    if bad <= 3:
                        ctx.broken_tie('correspondence', 'reference semantics of snapshot_ast vs replay_events', {'population': r['pop'], 'model': mrun[:600]})
            ctx.extra['model_cases'] = len(sel)
            ctx.extra['model_disagreements'] = bad
    ctx.stage('model')
    ctx.sample({'population': str(cases[0]['pop'])[:300], 'text': cases[0].get('text', '')[:300]})


def replay(ctx, payload):
    pop = [(a, tuple(b), c) for a, b, c in payload['input']['population']]
    with PowerMemory():
        r = one_case(ctx, ctx.rng, pop)
    print(r.get('text', '')[:400])
    return not ctx.counterexamples
