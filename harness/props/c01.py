"""C01 -- running a script issues exactly the commands, waits and output its source says.

Oracle: the reference semantics Lang.Sem.run_src evaluated in Coq on the AST of each generated
script, against the trace of the real Parser + Loader + Machine (device calls at the fake
lights, clock requests, output sink).  Correspondences A (compile), B (load), C (run_vm)."""
import langcheck

MODEL_TARGETS = ['Run/SemShow.vo', 'Run/VmShow.vo']
EXTRA_TARGETS = MODEL_TARGETS


def run(ctx):
    ctx.rule = ('grammar-directed scripts (all documented statement forms, nesting depth <= 5) over random populations '
                'of 0-6 lights; non-trivial = accepted by the compiler, ran to an outcome inside the modelled arithmetic '
                'and produced at least two observable events; distinct = distinct script text')
    ctx.assumptions += ['arithmetic outside the modelled range (libm, rgb/colorsys, ints beyond 2^53 meeting floats) is skipped and counted',
                        'device layer = the repository fakes (bardolph.fakes) with a global call recorder']
    n = 6000 if ctx.thorough() else 420
    corpus = langcheck.load_corpus('C01')
    cases, stats = langcheck.generate_cases(ctx.rng, n)
    ctx.stage('generate')
    summary = langcheck.compare_all(ctx, 'C01', corpus + cases)
    ctx.stage('compare')
    ctx.extra['summary'] = summary
    ctx.extra['generator_distribution'] = stats
    if summary['cases'] and summary['rejected'] > 0.05 * summary['cases']:
        ctx.broken_tie('correspondence', 'generator: well-formed scripts rejected by the compiler',
                       {'rejected': summary['rejected'], 'of': summary['cases'], 'samples': ctx.extra.get('rejected_samples')})


def replay(ctx, payload):
    inp = payload.get('input', {})
    case = langcheck.Case([(inp['script'].rstrip('\n'), inp['ast'][1:-1])], [tuple(l[:3]) + (tuple(l[3]),) for l in inp['world']], 'replay')
    ctx.model_runnable = True
    before = len(ctx.counterexamples)
    langcheck.compare_all(ctx, 'C01', [case], do_shrink=False)
    for c in ctx.counterexamples[before:]:
        print(c['what'])
        print(' expected', c['replay'].get('expected'))
        print(' actual  ', c['replay'].get('actual'))
    return len(ctx.counterexamples) == before
