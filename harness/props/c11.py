"""C11 -- time-of-day patterns.

Ties checked on every run:
  T1  translator validation: generated hours_valid/minutes_valid/init_*_set vs the Python
      originals on every field string of length <= 3 over the pattern alphabet (exhaustive);
  T2  correspondence: TimePattern.from_string(s) acceptance and its full 24x60 match table
      (as a digest) vs the model's from_string/tp_match -- all 15 851 well-formed patterns
      plus malformed texts (quick), all 271 453 texts of length <= 5 over 12 characters (thorough);
  T3  `or` lists through the real Parser + Machine instructions vs model tp_union_all;
  O   oracle: the same observations vs the specification (denotes), evaluated in Coq;
      purity of use (program and macros unchanged by running time statements);
      compile accept/reject of `time at <text>`; first matching minute of a virtual-clock wait.
"""
import itertools
import common
from common import coq_str, coq_list

MODEL_TARGETS = ['Run/C11Model.vo']
EXTRA_TARGETS = ['Run/C11Spec.vo', 'Run/C11Model.vo']
ALPHA = '0123456789*:'


def digest_of(fn):
    n = s1 = s2 = 0
    for h in range(24):
        for m in range(60):
            if fn(h, m):
                i = h * 60 + m + 1
                n += 1
                s1 += i
                s2 += i * i
    return '%d,%d,%d' % (n, s1, s2)


def impl_case(s):
    """Observation of the implementation for one text: 'N' (rejected: None or a pattern that
    matches nothing is NOT the same thing -- a pattern object that matches nothing is reported
    as 'E') or 'A'+digest."""
    from bardolph.lib.time_pattern import TimePattern
    try:
        p = TimePattern.from_string(s)
    except Exception as ex:  # pragma: no cover
        return 'X' + type(ex).__name__
    if p is None:
        return 'N'
    d = digest_of(p.match)
    return 'A' + d


def well_formed():
    digs = '0123456789'
    hours = ['*'] + ['*' + d for d in digs] + [d + '*' for d in digs] + [a + b for a in digs for b in digs] + list(digs)
    mins = [a + b for a in digs for b in digs] + [d + '*' for d in digs] + ['*' + d for d in digs] + ['*']
    return [h + ':' + m for h in hours for m in mins]


def chunks(l, n):
    return [l[i:i + n] for i in range(0, len(l), n)]


def eval_strings(ctx, tag, imports, fn, inputs, per_file, render=coq_str):
    """Evaluate `fn (list of inputs)` in Coq, sharded; returns the ';'-separated results."""
    files = []
    parts = chunks(inputs, per_file)
    for part in parts:
        files.append('Eval vm_compute in (%s %s).\n' % (fn, coq_list([render(x) for x in part])))
    res = common.run_cases(tag, imports, files)
    out = []
    for (ok, strs, log), part in zip(res, parts):
        if not ok or len(strs) != 1:
            raise RuntimeError('coq evaluation of %s failed: %s' % (fn, log[-800:]))
        items = strs[0].split(';')[:-1]
        if len(items) != len(part):
            raise RuntimeError('coq evaluation of %s: %d results for %d inputs' % (fn, len(items), len(part)))
        out.extend(items)
    return out


def first_diff_minute(ctx, texts, impl_match):
    """Concrete (h, m) on which the implementation differs from the specification."""
    res = common.run_cases('c11tab', 'From Bardolph Require Import Run.C11Spec.',
                           ['Eval vm_compute in (spec_or_table %s).\n' % coq_list([coq_str(t) for t in texts])])
    ok, strs, log = res[0]
    if not ok:
        return None
    tab = strs[0]
    for h in range(24):
        for m in range(60):
            want = tab[h * 60 + m] == '1'
            if bool(impl_match(h, m)) != want:
                return (h, m, want)
    return None


def translator_validation(ctx):
    from bardolph.lib.time_pattern import TimePattern
    alpha = ALPHA + ' x'
    fields = [''.join(t) for n in range(0, 4) for t in itertools.product(alpha, repeat=n)]
    # hours_valid / minutes_valid on every field
    def py_valid(s):
        def safe(f):
            try:
                return 'T' if f(s) else 'F'
            except IndexError:
                return 'F'   # the model's py_index totalisation; never reached from from_string
        return safe(TimePattern.hours_valid) + safe(TimePattern.minutes_valid)
    files = ['Eval vm_compute in (gen_cases %s).\n' % coq_list([coq_str(s) for s in part]) for part in chunks(fields, 800)]
    res = common.run_cases('c11gen', 'From Bardolph Require Import Run.C11Model.', files)
    got = ''
    for ok, strs, log in res:
        if not ok or len(strs) != 1:
            ctx.broken_tie('correspondence', 'translator-validation', 'coq evaluation failed: ' + log[-500:])
            return
        got += strs[0]
    bad = 0
    for i, s in enumerate(fields):
        ctx.count()
        if py_valid(s) != got[2 * i:2 * i + 2]:
            bad += 1
            if bad <= 3:
                ctx.broken_tie('correspondence', 'translator-validation hours_valid/minutes_valid',
                               {'field': s, 'python': py_valid(s), 'generated': got[2 * i:2 * i + 2]})
    # the two set constructors on every field the regular expression can capture
    caps = [f for f in fields if 1 <= len(f) <= 2 and all(c in '0123456789*' for c in f)]
    def py_sets(s):
        p = TimePattern(None, None)
        out = []
        for init, attr in ((p._init_hour_set, '_hour_set'), (p._init_minute_set, '_minute_set')):
            try:
                setattr(p, attr, set())
                init(s)
                out.append(''.join('%d,' % v for v in sorted(getattr(p, attr))))
            except (IndexError, ValueError):
                out.append('!')
        return out
    items = eval_strings(ctx, 'c11set', 'From Bardolph Require Import Run.C11Model.', 'gen_set_cases', caps, 200)
    for s, it in zip(caps, items):
        ctx.count()
        gh, gm = it.split('/')
        ph, pm = py_sets(s)
        norm = lambda t: ''.join('%d,' % v for v in sorted({int(x) for x in t.split(',') if x}))
        if (ph != '!' and norm(gh) != ph) or (pm != '!' and norm(gm) != pm):
            ctx.broken_tie('correspondence', 'translator-validation init sets', {'field': s, 'python': [ph, pm], 'generated': [gh, gm]})
    ctx.extra['translator_validation_inputs'] = len(fields) + len(caps)


def run(ctx):
    from bardolph.lib.time_pattern import TimePattern
    ctx.rule = ('texts over "0-9*:" (all well-formed H:M patterns; all texts of length <= 5 in the thorough tier), '
                'malformed and decorated texts, random `or` lists; a case is non-trivial when the implementation '
                'accepts it and its match table is neither empty nor full, or when it is rejected for a reason '
                'other than not having the H:M form; distinct = distinct text / list')
    ctx.assumptions += ['ASCII texts only (non-ASCII decimal digits are outside the stated alphabet)',
                        'TimePattern methods other than those translated are tied by exact text comparison (shape_* booleans)']
    model_ok = ctx.model_runnable
    # ---------------- texts ----------------
    wf = well_formed()
    texts = list(wf)
    if ctx.thorough():
        texts = [''.join(t) for n in range(0, 6) for t in itertools.product(ALPHA, repeat=n)]
        ctx.exhaustive = True
    else:
        rng = ctx.rng
        extra = set()
        for _ in range(1500):
            n = rng.randint(0, 6)
            extra.add(''.join(rng.choice(ALPHA) for _ in range(n)))
        for w in rng.sample(wf, 300):
            extra.add(w + rng.choice([' ', '\t', 'x', ':', '0', ' 1', '\n']))
            extra.add(rng.choice([' ', 'x', '0']) + w)
        texts += sorted(extra - set(wf))
    ctx.extra['texts'] = len(texts)
    ctx.extra['well_formed'] = len(wf)
    ctx.stage('texts')
    impl = [impl_case(s) for s in texts]
    ctx.stage('impl')
    spec = eval_strings(ctx, 'c11spec', 'From Bardolph Require Import Run.C11Spec.', 'spec_cases', texts, 1200)
    ctx.count(len(texts))
    ctx.stage('spec')
    for s, i in zip(texts, impl):
        if i.startswith('A') and i not in ('A0,0,0', 'A' + digest_of(lambda h, m: True)) or (i == 'N' and ':' in s):
            ctx.nontriv(s)
    for s in texts[:3] + texts[200:202]:
        ctx.sample({'text': s, 'implementation': impl_case(s)})
    # oracle: implementation vs specification
    n_bad = 0
    for s, i, sp in zip(texts, impl, spec):
        if i != sp:
            n_bad += 1
            if n_bad > 40:
                continue
            if i.startswith('X'):
                ctx.counterexample('C11/from-string-raises', 'from_string(%r) raises %s' % (s, i[1:]), {'text': s})
            elif sp == 'N':
                p = TimePattern.from_string(s)
                kind = 'accepted-matches-nothing' if i == 'A0,0,0' else 'accepted-should-reject'
                ctx.counterexample('C11/' + kind, 'text %r must be rejected (denotes no time of day) but from_string returns %r' % (s, p),
                                   {'text': s, 'expected': 'rejected', 'actual': i})
            elif i == 'N':
                ctx.counterexample('C11/valid-rejected', 'text %r denotes a time of day but is rejected' % s, {'text': s})
            else:
                p = TimePattern.from_string(s)
                d = first_diff_minute(ctx, [s], p.match)
                what = 'pattern %r: match differs from what the text denotes' % s
                sig = 'C11/match-table'
                if d:
                    what += ' at %02d:%02d (should %smatch)' % (d[0], d[1], '' if d[2] else 'not ')
                    if d[1] == 59 and d[2]:
                        sig = 'C11/minute-59-never-matches'
                ctx.counterexample(sig, what, {'text': s, 'time': d})
    # correspondence: implementation vs model
    if model_ok:
        model = eval_strings(ctx, 'c11mod', 'From Bardolph Require Import Run.C11Model.', 'model_cases', texts, 1200)
        bad = [(s, i, m) for s, i, m in zip(texts, impl, model) if i != m]
        for s, i, m in bad[:3]:
            ctx.broken_tie('correspondence', 'from_string/match vs model', {'text': s, 'implementation': i, 'model': m})
        ctx.stage('model')
        translator_validation(ctx)
        ctx.stage('translator-validation')
    # ---------------- `or` lists ----------------
    or_lists(ctx, wf, model_ok)
    ctx.stage('or-lists')
    compile_accepts(ctx, texts if not ctx.thorough() else wf + ctx.rng.sample(texts, 4000))
    ctx.stage('compile-accepts')
    clock_wait(ctx, wf)
    ctx.stage('clock-wait')


def or_lists(ctx, wf, model_ok):
    """`time at p1 or p2 ...` compiled by the real Parser, the TIME_PATTERN instructions executed
    by the real Machine; observed: the match table of the time register, and that the program
    and macro values are unchanged by execution (any number of times)."""
    from bardolph.parser.parse import Parser
    from bardolph.vm.machine import Machine
    from bardolph.vm.vm_codes import OpCode
    import tests_env
    tests_env.configure()
    rng = ctx.rng
    acc = [w for w in wf if impl_case(w).startswith('A') and impl_case(w) != 'A0,0,0'] if len(wf) < 20000 else wf
    n_lists = 3000 if ctx.thorough() else 250
    lists = []
    # reduced alphabet, exhaustive pairs
    small = ['8:00', '9:30', '*:15', '1*:*5', '2*:0*', '*:*', '23:59', '0:00']
    lists += [[a, b] for a in small for b in small]
    while len(lists) < n_lists:
        k = rng.choice([2, 2, 3, 3, 4])
        lists.append([rng.choice(acc) for _ in range(k)])
    spec = eval_strings(ctx, 'c11or', 'From Bardolph Require Import Run.C11Spec.', 'spec_or_cases', lists, 150,
                        render=lambda l: coq_list([coq_str(t) for t in l]))
    model = None
    if model_ok:
        model = eval_strings(ctx, 'c11orm', 'From Bardolph Require Import Run.C11Model.', 'model_or_cases', lists, 150,
                             render=lambda l: coq_list([coq_str(t) for t in l]))
    for idx, l in enumerate(lists):
        ctx.count()
        use_macro = idx % 3 == 1
        if use_macro:
            src = ''.join('define p%d %s\n' % (i, t) for i, t in enumerate(l)) + 'time at ' + ' or '.join('p%d' % i for i in range(len(l))) + '\n'
        else:
            src = 'time at ' + ' or '.join(l) + '\n'
        parser = Parser()
        if not parser.parse(src):
            ctx.counterexample('C11/or-list-rejected', 'accepted patterns joined by `or` are rejected: %r' % src, {'script': src})
            continue
        prog = parser.get_program()
        pats = [inst.param1 for inst in prog if inst.op_code in (OpCode.TIME_PATTERN, OpCode.CONSTANT)]
        before = [digest_of(p.match) for p in pats]
        m = Machine()
        m._program = prog
        digests = []
        for rep in range(2 + idx % 2):
            m._reg.pc = 0
            for pc, inst in enumerate(prog):
                m._reg.pc = pc
                m._fn_table[inst.op_code]()
            digests.append(digest_of(m._reg.time.match))
        after = [digest_of(p.match) for p in pats]
        if len(set(l)) > 1:
            ctx.nontriv(tuple(l))
        if digests[0] != spec[idx]:
            d = first_diff_minute(ctx, l, m._reg.time.match) if len(digests) == 1 else None
            # recompute on a fresh compile for the replay
            sig = 'C11/or-is-not-union'
            ctx.counterexample(sig, '`%s` does not wait for exactly the union of its alternatives' % src.strip().splitlines()[-1],
                               {'script': src, 'expected_digest': spec[idx], 'actual_digest': digests[0]})
        elif any(d != digests[0] for d in digests):
            ctx.counterexample('C11/use-changes-pattern', 'executing %r repeatedly changes what it waits for' % src, {'script': src, 'digests': digests})
        if before != after:
            ctx.counterexample('C11/use-mutates-program', 'executing %r changes the patterns stored in the compiled program' % src,
                               {'script': src, 'before': before, 'after': after})
        if model is not None and digests[0] != model[idx]:
            ctx.broken_tie('correspondence', 'or-list vs model', {'list': l, 'implementation': digests[0], 'model': model[idx]})
    ctx.sample({'or_list': lists[70], 'digest': spec[70]})
    ctx.extra['or_lists'] = len(lists)
    # the same lists through a whole run: `time at ... on all` in each unit mode (the wait is made when the command executes):
    # the clock is asked to wait for exactly the listed times, once, and the command follows
    import lang
    n_runs = 0
    for idx, l in enumerate(lists):
        if idx % (2 if ctx.thorough() else 6):
            continue
        mode = ['logical', 'raw', 'rgb'][(idx // 6) % 3]
        line = 'time at ' + ' or '.join(l)
        src = ['units %s\n%s\non all\n' % (mode, line), '%s\nunits %s\non all\n' % (line, mode)][(idx // 18) % 2]
        p, e = lang.compile_script(src)
        if p is None:
            ctx.counterexample('C11/or-list-rejected', 'accepted patterns joined by `or` are rejected: %r' % src, {'script': src})
            continue
        st, evs = lang.run_program_impl(p, lang.SMALL_WORLD, max_steps=500)
        n_runs += 1
        ctx.count()
        waits = [x for x in evs if x.startswith('U|')]
        got = None
        if len(waits) == 1:
            table = set()
            for alt in waits[0][2:].split('+')[:-1]:
                hs, ms = alt.split(':')
                table |= {(int(h), int(m)) for h in hs.split('.')[:-1] for m in ms.split('.')[:-1]}
            got = digest_of(lambda h, m: (h, m) in table)
        if st != 'FIN' or got != spec[idx] or not any(x.startswith('AP|') for x in evs):
            ctx.counterexample('C11/run-does-not-wait-for-the-listed-times',
                               'running %r in %s units: %s, waits asked of the clock %r (match digest %s, expected %s), events %r'
                               % (src, mode, st, [w[:40] for w in waits], got, spec[idx], evs[:4]), {'script': src, 'mode': mode})
    ctx.extra['or_lists_run_through_machine'] = n_runs
    # two `time at` statements in one script: each wait is for the times ITS list denotes, whatever the statement before
    # it listed (the same first pattern, a macro used twice, the statements in a loop)
    def table_digest(ev):
        table = set()
        for alt in ev[2:].split('+')[:-1]:
            hs, ms = alt.split(':')
            table |= {(int(h), int(m)) for h in hs.split('.')[:-1] for m in ms.split('.')[:-1]}
        return digest_of(lambda h, m: (h, m) in table)
    single = {}
    def digest_for(l):
        k = tuple(l)
        if k not in single:
            single[k] = eval_strings(ctx, 'c11seq', 'From Bardolph Require Import Run.C11Spec.', 'spec_or_cases', [list(l)], 150,
                                     render=lambda x: coq_list([coq_str(t) for t in x]))[0]
        return single[k]
    n_seq = 0
    for a, b, c in [('10:00', '11:30', '12:15'), ('*:00', '7:45', '8:*'), ('1*:*5', '2*:0*', '9:30'), ('8:00', '9:30', '23:59')]:
        for first, second in [([a, b], [a]), ([a, b], [a, c]), ([a], [a, b]), ([a, b, c], [b]), ([a, b], [b, a])]:
            for form in ('plain', 'macro', 'loop'):
                if form == 'plain':
                    src = 'time at %s\non all\ntime at %s\noff all\n' % (' or '.join(first), ' or '.join(second))
                    want = [digest_for(first), digest_for(second)]
                elif form == 'macro':
                    src = 'define wake %s\ntime at %s\non all\ntime at %s\noff all\n' % (first[0], ' or '.join(['wake'] + first[1:]),
                                                                                     ' or '.join(['wake' if t == first[0] else t for t in second]))
                    want = [digest_for(first), digest_for(second)]
                else:
                    src = 'repeat 2 begin\ntime at %s\non all\ntime at %s\noff all\nend\n' % (' or '.join(first), ' or '.join(second))
                    want = [digest_for(first), digest_for(second)] * 2
                p, e = lang.compile_script(src)
                if p is None:
                    ctx.counterexample('C11/or-list-rejected', 'accepted patterns joined by `or` are rejected: %r' % src, {'script': src})
                    continue
                st, evs = lang.run_program_impl(p, lang.SMALL_WORLD, max_steps=800)
                got = [table_digest(x) for x in evs if x.startswith('U|')]
                n_seq += 1
                ctx.count()
                ctx.nontriv(('seq', src))
                if st != 'FIN' or got != want:
                    ctx.counterexample('C11/later-time-at-keeps-earlier-alternatives',
                                       'running %r: %s; the waits asked of the clock have match digests %r, the lists denote %r' % (src, st, got, want), {'script': src})
    ctx.extra['time_at_sequences'] = n_seq


def compile_accepts(ctx, texts):
    """`time at <text>` is accepted by the compiler exactly when the text is an acceptable pattern."""
    from bardolph.parser.parse import Parser
    texts = [t for t in texts if t and not any(c in t for c in ' \t\n#')]
    if not ctx.thorough():
        texts = texts[::7]
    spec = eval_strings(ctx, 'c11acc', 'From Bardolph Require Import Run.C11Spec.', 'spec_cases', texts, 1200)
    for t, sp in zip(texts, spec):
        ctx.count()
        src = 'time at %s\n' % t
        parser = Parser()
        try:
            ok = parser.parse(src)
        except Exception as ex:
            ctx.counterexample('C11/compile-raises', 'compiling %r raises %s' % (src, type(ex).__name__), {'script': src})
            continue
        want = sp != 'N'
        if bool(ok) != want:
            if want:
                ctx.counterexample('C11/compile-rejects-valid', 'compiling %r is rejected' % src, {'script': src})
            else:
                ctx.counterexample('C11/compile-accepts-invalid', '%r compiles although the pattern is malformed or can match no time of day' % src.strip(), {'script': src})
        # same through a macro
        src2 = 'define pat %s\ntime at pat\n' % t
        parser = Parser()
        try:
            ok2 = parser.parse(src2)
        except Exception as ex:
            ctx.counterexample('C11/compile-raises', 'compiling %r raises %s' % (src2, type(ex).__name__), {'script': src2})
            continue
        if bool(ok2) and not want:
            ctx.counterexample('C11/compile-accepts-invalid-macro', '%r compiles although the pattern is malformed or can match no time of day' % src2, {'script': src2})
    ctx.extra['compile_accept_cases'] = len(texts)


def clock_wait(ctx, wf):
    """Clock.wait_until on a virtual time line returns at the first minute the pattern list matches."""
    from bardolph.lib.clock import Clock
    from bardolph.lib.time_pattern import TimePattern
    rng = ctx.rng
    n = 400 if ctx.thorough() else 60
    cases = []
    for _ in range(n):
        k = rng.choice([1, 2, 3])
        l = [rng.choice(wf) for _ in range(k)]
        if all(impl_case(t).startswith('A') and impl_case(t) != 'A0,0,0' for t in l):
            cases.append((l, rng.randrange(1440)))
    # directed: the wait crosses the top of an hour whose minute 0 is denoted for the hour that just ended only
    for _ in range(40 if ctx.thorough() else 14):
        h = rng.randrange(0, 23)
        cases.append((['%d:00' % h, '%d:%02d' % (h + 1, rng.randint(2, 9))], h * 60 + rng.randint(5, 55)))
    files = ['Eval vm_compute in (sconcat (map (fun l => spec_or_table l +++ ";") %s)).\n'
             % coq_list([coq_list([coq_str(t) for t in l]) for l, _ in part]) for part in chunks(cases, 40)]
    res = common.run_cases('c11clk', 'From Bardolph Require Import Run.C11Spec.', files)
    tabs = []
    for ok, strs, log in res:
        if not ok:
            raise RuntimeError('coq: ' + log[-500:])
        tabs += strs[0].split(';')[:-1]
    for (l, start), tab in zip(cases, tabs):
        ctx.count()
        p = TimePattern.from_string(l[0])
        if hasattr(p, 'copy'):
            p = p.copy()
        else:
            p = TimePattern.from_string(l[0])
        for t in l[1:]:
            p.union(TimePattern.from_string(t))
        # the wall clock is replaced where clock.py reads it (datetime.now): every reading advances the time, so a
        # time of day assembled from two readings is exposed; each tick of the clock thread advances it further
        import types
        from bardolph.lib import clock as clock_mod
        step = rng.choice([1, 7, 20, 31])
        tick = rng.choice([5, 17, 23])          # tick + step < 60: no minute is ever skipped between two polls
        state = {'secs': start * 60 + rng.randrange(60 - step), 'waits': 0}   # the first reading falls into the start minute
        clock = Clock()

        class FakeDatetime:
            @staticmethod
            def now():
                state['secs'] += step
                t = state['secs']
                return types.SimpleNamespace(hour=(t // 3600) % 24, minute=(t // 60) % 60, second=t % 60)
        saved = (clock_mod.datetime, Clock.wait)
        try:
            clock_mod.datetime = FakeDatetime

            def fake_wait(self):
                state['secs'] += tick
                state['waits'] += 1
                if state['waits'] > 40000:
                    raise RuntimeError('no match within two days')
                return True
            Clock.wait = fake_wait
            try:
                clock.wait_until(p)
                got = (state['secs'] // 60) % 1440
            except RuntimeError:
                got = None
        finally:
            clock_mod.datetime, Clock.wait = saved
        want = None
        for d in range(1440):
            if tab[(start + d) % 1440] == '1':
                want = (start + d) % 1440
                break
        if got != want:
            ctx.counterexample('C11/wait-returns-at-wrong-minute',
                               'waiting for %r from %02d:%02d returns at %s, first denoted minute is %s' % (l, start // 60, start % 60, got, want),
                               {'patterns': l, 'start': start, 'got': got, 'want': want})
    ctx.extra['clock_waits'] = len(cases)
    # the wall clock jumps while the wait is pending (suspend / resume, the clock is set): every poll looks at the time
    # of day afresh -- also when the minute it shows is the one the previous poll showed, some hours earlier
    import types
    from bardolph.lib import clock as clock_mod
    n_jump = 0
    for i in range(120 if ctx.thorough() else 30):
        h1, k, m = rng.randrange(0, 20), rng.randint(1, 3), rng.randrange(60)
        directed = i % 2 == 0
        pats = ['%d:%02d' % (h1 + k, m)] if directed else [rng.choice(wf) for _ in range(rng.choice([1, 2]))]
        if not all(impl_case(t).startswith('A') and impl_case(t) != 'A0,0,0' for t in pats):
            continue
        p = TimePattern.from_string(pats[0]).copy() if hasattr(TimePattern.from_string(pats[0]), 'copy') else TimePattern.from_string(pats[0])
        for t in pats[1:]:
            p.union(TimePattern.from_string(t))
        tick = rng.choice([5, 17, 23])
        jump_at = rng.randint(1, 4)
        state = {'secs': h1 * 3600 + m * 60 + rng.randrange(0, 20), 'waits': 0, 'polls': []}
        clock = Clock()

        class JumpDatetime:
            @staticmethod
            def now():
                t = state['secs']
                state['polls'].append(t)
                return types.SimpleNamespace(hour=(t // 3600) % 24, minute=(t // 60) % 60, second=t % 60)
        saved = (clock_mod.datetime, Clock.wait)
        try:
            clock_mod.datetime = JumpDatetime

            def jump_wait(self):
                state['waits'] += 1
                state['secs'] += (3600 * k) if state['waits'] == jump_at else tick
                if state['waits'] > 40000:
                    raise RuntimeError('no match within two days')
                return True
            Clock.wait = jump_wait
            try:
                clock.wait_until(p)
                got = state['secs']
            except RuntimeError:
                got = None
        finally:
            clock_mod.datetime, Clock.wait = saved
        # expected: the first time of day the clock showed at a poll, or would have shown at a later one, that the list denotes
        t, w = h1 * 3600 + m * 60 + (state['polls'][0] - (h1 * 3600 + m * 60)) if state['polls'] else 0, 0
        want = None
        for _ in range(40001):
            if p.match((t // 3600) % 24, (t // 60) % 60):
                want = t
                break
            w += 1
            t += (3600 * k) if w == jump_at else tick
        n_jump += 1
        ctx.count()
        if directed:
            ctx.nontriv(('jump', tuple(pats), h1, k, m, jump_at))
        if got != want:
            show = lambda x: None if x is None else '%02d:%02d:%02d' % ((x // 3600) % 24, (x // 60) % 60, x % 60)
            ctx.counterexample('C11/wait-misses-match-after-clock-jump',
                               'waiting for %r from %02d:%02d with the clock jumping %d h at poll %d returns at %s; the first poll that shows a denoted time is at %s'
                               % (pats, h1, m, k, jump_at, show(got), show(want)), {'patterns': pats, 'start': [h1, m], 'jump_hours': k, 'jump_at_wait': jump_at, 'tick': tick})
    ctx.extra['clock_waits_with_jumps'] = n_jump


def replay(ctx, payload):
    from bardolph.lib.time_pattern import TimePattern
    inp = payload.get('input', {})
    if 'text' in inp:
        s = inp['text']
        spec = eval_strings(ctx, 'c11rp', 'From Bardolph Require Import Run.C11Spec.', 'spec_cases', [s], 10)[0]
        print('text %r: implementation %s, specification %s' % (s, impl_case(s), spec))
        return impl_case(s) == spec
    print('replay: re-run ./check C11 (script-level inputs are replayed by the full check)')
    return False
