"""C06 -- the compiler always ends in accept or a line-numbered rejection, never a crash.

Streams (all from ctx.rng): texts that break exactly one documented rule each (harness/rulebreakers.py: 8 rules x fragments x 9 contexts,
every one must be rejected); valid generated scripts; mutations of them (token deletion, duplication,
swap, truncation, line breaks moved); token soup over the whole vocabulary (keywords, registers, marks,
comparison operators, names, numbers, strings, time patterns, the abbreviations and every token-class name
in lower, upper and mixed case); ASCII noise; non-ASCII noise (implementation only).
Checks: (i) Parser.parse never raises; a rejection carries a message naming a line and ScriptJob.program is
None; an acceptance leaves no error text; (ii) correspondence with the parser model of Front/Parser.v:
accept / reject, first error line, instruction list (via Lang.CodeGen.compile); (iii) every accepted script
is executable: the verified control-flow checker (C05) accepts its loaded image and the real Machine runs it
on a random population without an internal fault (KeyError / AttributeError / AssertionError ...)."""
import re
import common
import lang
import gen_prog
from common import coq_str

MODEL_TARGETS = ['Run/ParseShow.vo', 'Run/WfShow.vo']
EXTRA_TARGETS = MODEL_TARGETS

KEYWORDS = ['all', 'and', 'as', 'assign', 'at', 'begin', 'break', 'breakpoint', 'column', 'cycle', 'default', 'define', 'else',
            'end', 'from', 'get', 'group', 'if', 'in', 'location', 'logical', 'not', 'off', 'on', 'or', 'print', 'printf',
            'println', 'pause', 'raw', 'row', 'repeat', 'return', 'rgb', 'set', 'stage', 'to', 'units', 'while', 'with',
            'wait', 'zone']
INTERNAL = ['compare', 'eof', 'error', 'literal_string', 'mark', 'name', 'null', 'number', 'register', 'syntax_error',
            'time_pattern', 'unknown']
REGS = ['hue', 'saturation', 'brightness', 'kelvin', 'red', 'green', 'blue', 'duration', 'time']
MARKS = list('[]{}()+-*/:^%#') + ['<', '>', '<=', '>=', '==', '!=']
ATOMS = ['x', 'y', 'f', 'g', 'round', 'i', 'H', 'S', 'B', 'K', '0', '1', '5', '2.5', '120', '"a"', '"light_1"', '"group"', '"{} {}"',
         '12:30', '*:*5', '25:00', '1:2', '"-"', '""', '.5', '007']


POWER_DEFAULT_SIG = 'C06/power-with-the-default-operand'     # D70, listed in KNOWN_FINDINGS.txt


def power_default_fault():
    """the machine stopped on the KeyError that Machine._power raises for the operand `default` (`on default`, `off default`)"""
    ex = lang.LAST_EXC
    return isinstance(ex, KeyError) and 'DEFAULT' in repr(ex.args[0] if ex.args else '')


def soup(rng):
    n = rng.randint(1, 12)
    toks = []
    for _ in range(n):
        r = rng.random()
        if r < 0.45:
            toks.append(rng.choice(KEYWORDS))
        elif r < 0.55:
            toks.append(rng.choice(REGS))
        elif r < 0.7:
            toks.append(rng.choice(MARKS))
        elif r < 0.92:
            toks.append(rng.choice(ATOMS))
        else:
            w = rng.choice(KEYWORDS + INTERNAL + REGS)
            toks.append(rng.choice([w.upper(), w.title(), w]))
    sep = [rng.choice([' ', ' ', ' ', '\n', '  ', '\t']) for _ in toks]
    return ''.join(t + s for t, s in zip(toks, sep))


def prefixed_soup(rng):
    pre = rng.choice(['', 'define f with a b begin return {a + b} end\n', 'assign x 5\n', 'define m 7 define g begin print 1 end\n',
                      'repeat 2 begin\n', 'define f begin\n', 'set "light_1" begin\n'])
    return pre + soup(rng)


def mutate(rng, text):
    toks = re.split(r'(\s+)', text)
    words = [i for i, t in enumerate(toks) if t.strip()]
    if not words:
        return text
    op = rng.choice(['del', 'dup', 'swap', 'trunc', 'nl', 'glue'])
    i = rng.choice(words)
    if op == 'del':
        toks[i] = ''
    elif op == 'dup':
        toks[i] = toks[i] + ' ' + toks[i]
    elif op == 'swap':
        j = rng.choice(words)
        toks[i], toks[j] = toks[j], toks[i]
    elif op == 'trunc':
        toks = toks[:i]
    elif op == 'nl':
        toks[i] = toks[i] + '\n'
    else:
        toks[i] = toks[i] + rng.choice(['{', '}', ']', '[', 'end', 'begin', '"', '(', ')'])
    return ''.join(toks)


def noise(rng):
    alpha = 'abcxyHSBK019 \t"\\#{}[]()+-*/%^<>=!:.,_;\n\'`~@$&|?\x0b\x0c\x1c\x1f\r'
    return ''.join(rng.choice(alpha) for _ in range(rng.randint(0, 40)))


def observe(text):
    from bardolph.parser.parse import Parser
    from bardolph.controller.script_job import ScriptJob
    obs = {}
    p = Parser()
    try:
        with lang.time_limit(8):
            ok = p.parse(text)
    except lang.CompilerHangs as ex:
        obs['raises'] = 'CompilerHangs: ' + str(ex)
        return obs
    except Exception as ex:
        obs['raises'] = type(ex).__name__ + ': ' + str(ex)[:100]
        return obs
    obs['ok'] = bool(ok)
    obs['errors'] = p.get_errors()
    if ok:
        obs['program'] = p.get_program()
        obs['key'] = 'A#' + lang.show_program(p.get_program())
    else:
        m = re.match(r'Line (\d+):', p.get_errors())
        obs['line'] = m.group(1) if m else None
        obs['key'] = 'R#' + (m.group(1) if m else '?')
    try:
        # a job that held a program before: a rejected text must not leave that one, or a part of the new one, behind
        job = ScriptJob()
        job.load_string('on all')
        with lang.time_limit(8):
            job.load_string(text)
        obs['job_program_none'] = job.program is None
    except Exception as ex:
        obs['raises'] = 'ScriptJob: ' + type(ex).__name__
    return obs


def valid_expr_texts():
    """Every pair and triple of operators, chained without parentheses, and with a leading minus; braces inside
    expressions; definitions by call: all valid (C02 requires them accepted; here they are compiled, loaded and run)."""
    out = []
    ops = ['+', '-', '*', '/', '%', '^', '<', '<=', '>', '>=', '==', '!=', 'and', 'or']
    for a in ops:
        for b in ops:
            out.append('assign v {7 %s 3 %s 2}' % (a, b))
        out.append('assign v 1 hue {v %s 2 %s v %s 3}' % (a, a, a))   # v = 1: a tower of ^ stays small
        out.append('define f with p begin return {p %s -p %s (p %s 1)} end print [f 3]' % (a, a, a))
        out.append('if {-2 %s 5} hue {2 ^ 3 ^ 2 %s 1}' % (a, a))
        out.append('assign v 2 hue {{v} %s {3 %s {v}} %s ({1})}' % (a, a, a))
    out += ['hue {{5}}', 'println {2 * {3}}', 'define f with a begin return a end hue {2 * {[f 3]}}', 'define f with a begin print a end define g [f 1]\ng',
            'define f begin print 1 end define m "f"\nprint m', 'define f begin print 1 end define g [f]\n[g]', 'assign s "f" define f begin print s end f',
            # strings inside expressions are constants, not names of variables (D64)
            'println {"abc"}', 'define k "s" assign v {k} println v', 'if {"a" == "a"} println 1', 'define k "s" if {k != "t"} println {k}', 'assign s "x" if {s == "x"} println s']
    return out


def run(ctx):
    lang.ensure_env()
    rng = ctx.rng
    ctx.rule = ('valid generated scripts, one-step mutations of them, token soup over the full vocabulary (with and without a valid '
                'prefix that opens a routine / loop / matrix block), ASCII noise, non-ASCII noise; non-trivial = the text has at least '
                'three tokens and is either accepted or rejected at a line other than that of its first token; distinct = distinct text')
    ctx.assumptions += ['that Python code never raises is exhibited by these runs only (a Gallina function cannot raise)',
                        'accepted scripts that contain `pause` (waits for a key press on the terminal) are compiled and checked but not run',
                        'texts with numbers of more than 15 significant digits, `not`, pause, breakpoint, nested braces and similar undocumented forms are outside the parser model (counted as unmodelled) and are checked against the implementation only']
    n_valid = 1500 if ctx.thorough() else 110
    texts = []
    for i in range(n_valid):
        g = gen_prog.Gen(rng, gen_prog.World.generate(rng), {'nested_defs': 4})
        t = g.gen_script(rng.randint(1, 6))[0]
        texts.append(('valid', t))
        for _ in range(3):
            texts.append(('mutation', mutate(rng, t)))
    # the directed scenarios of the language checks (each kind): valid, so accepted, well-formed and executable
    for rep in range(3 if ctx.thorough() else 1):
        for kind in sorted(set(gen_prog.SCENARIO_KINDS)):
            items = gen_prog.scenario(rng, gen_prog.World.generate(rng), kind)
            texts.append(('valid', '\n'.join(t for t, _ in items) + '\n'))
    for i in range(20000 if ctx.thorough() else 900):
        texts.append(('soup', prefixed_soup(rng)))
    for i in range(5000 if ctx.thorough() else 300):
        texts.append(('noise', noise(rng)))
    import rulebreakers
    for rule, cname, t in rulebreakers.texts():
        texts.append(('rule:' + rule, t))
    texts += [('valid-expr', t) for t in valid_expr_texts()]
    for f in common.os.listdir(common.os.path.join(common.VERIF, 'corpus', 'C06')) if common.os.path.isdir(common.os.path.join(common.VERIF, 'corpus', 'C06')) else []:
        texts.insert(0, ('corpus', open(common.os.path.join(common.VERIF, 'corpus', 'C06', f)).read()))
    seen = set()
    uniq = []
    for k, t in texts:
        if t not in seen:
            seen.add(t)
            uniq.append((k, t))
    texts = uniq
    ctx.stage('generate')
    # ---- (i) implementation alone
    obs = []
    dist = {}
    for kind, t in texts:
        o = observe(t)
        obs.append(o)
        ctx.count()
        cls = 'raises' if 'raises' in o else ('accept' if o['ok'] else 'reject')
        dist[kind + '/' + cls] = dist.get(kind + '/' + cls, 0) + 1
        if 'raises' in o:
            ctx.counterexample('C06/compiler-raises-' + o['raises'].split(':')[0].replace('ScriptJob', '').strip(),
                               'compiling %r raises %s' % (t[:120], o['raises']), {'text': t})
            continue
        # (that a valid text is accepted is not C06's claim: valid scripts and expressions are judged by C01-C05 / C02)
        if o['ok'] and kind.startswith('rule:'):
            ctx.counterexample('C06/rule-not-enforced-' + kind[5:], 'the text %r breaks the rule `%s` and is accepted' % (t[:160], kind[5:]), {'text': t})
        if not o['ok']:
            if not o['errors'].strip() or o['line'] is None:
                ctx.counterexample('C06/rejection-without-line', 'text %r is rejected without a message that names a line: %r' % (t[:120], o['errors'][:120]), {'text': t})
            if not o.get('job_program_none', True):
                ctx.counterexample('C06/rejected-text-leaves-a-program', 'ScriptJob keeps a program for the rejected text %r' % t[:120], {'text': t})
        else:
            if o['errors'].strip():
                ctx.counterexample('C06/accepted-with-error-text', 'text %r is accepted although an error was reported: %r' % (t[:120], o['errors'][:160]), {'text': t})
        toks = t.split()
        if len(toks) >= 3 and (o['ok'] or o.get('line') not in (None, '1')):
            ctx.nontriv(t)
        # the valid expression forms are also run: an accepted one that stops the machine is a violation with its input
        if kind == 'valid-expr' and o['ok'] and o.get('program') is not None:
            st, evs = lang.run_program_impl(o['program'], lang.SMALL_WORLD, max_steps=3000)
            # (arithmetic the script itself gets wrong -- a division by zero, an overflow -- is its own run-time error, not the compiler's)
            if st.startswith('ABORT') and st not in ('ABORT:zerodiv', 'ABORT:overflow', 'ABORT:value'):
                ctx.counterexample('C06/valid-expression-stops-the-machine', 'the accepted text %r stops the machine: %s after %r' % (t[:120], st, evs[-3:]), {'text': t})
    # numbers of thousands of digits (int() refuses more than 4300: D67), in every position a number can take
    for t in ['hue ' + '9' * 4301, 'hue -' + '9' * 5000, 'hue {' + '9' * 4400 + ' + 1}', 'define x ' + '1' * 4301, 'repeat ' + '7' * 4500 + ' begin end',
              'hue 1.' + '9' * 5000, 'set "Strip" zone ' + '3' * 4301, 'hue ' + '9' * 4300, 'assign v ' + '8' * 20000]:
        o = observe(t)
        ctx.count()
        ctx.nontriv(t)
        if 'raises' in o:
            ctx.counterexample('C06/compiler-raises-on-long-number', 'compiling a text with a %d-digit number raises %s' % (len(t), o['raises'][:120]), {'text': t})
        elif not o['ok'] and (not o['errors'].strip() or o['line'] is None):
            ctx.counterexample('C06/rejection-without-line', 'a text with a long number is rejected without a message that names a line', {'text': t})
    # every command with every operand form: what is accepted runs without an internal fault of the machine (D66: `on L row 1`)
    cmd_world = [('Candle', 'g', 'l', ('matrix', 5, 6)), ('Strip', 'g', 'l', ('multi', 8)), ('Top', 'h', 'l', ('plain',))]
    for action in ('set', 'on', 'off'):
        for target in ('"Candle"', '"Strip"', '"Top"', '"nobody"', 'group "g"', 'location "l"', 'all', 'default'):
            for suffix in ('', ' zone 1', ' zone 1 2', ' row 1', ' column 1', ' row 1 2 column 0 1', ' begin stage row 1 end', ' and "Top"', ' row 1 and "Top" column 0',
                           ' begin end', ' begin stage row 1 on "Top" end', ' begin off "Top" stage column 0 end and "Top"', ' begin stage row 1 set "Strip" zone 1 end'):
                t = 'hue 120 %s %s%s' % (action, target, suffix)
                o = observe(t)
                ctx.count()
                if 'raises' in o:
                    ctx.counterexample('C06/compiler-raises-' + o['raises'].split(':')[0].strip(), 'compiling %r raises %s' % (t, o['raises']), {'text': t})
                elif o['ok'] and o.get('program') is not None:
                    ctx.nontriv(t)
                    st, evs = lang.run_program_impl(o['program'], cmd_world, max_steps=3000)
                    if st == 'ABORT:internal' and power_default_fault():
                        ctx.counterexample(POWER_DEFAULT_SIG, 'the accepted text %r stops the machine: Machine._power has no entry for the default operand (KeyError)' % t, {'text': t, 'world': cmd_world})
                    elif st.startswith('ABORT') and st not in ('ABORT:zerodiv', 'ABORT:value', 'ABORT:type'):
                        ctx.counterexample('C06/accepted-command-stops-the-machine', 'the accepted text %r stops the machine: %s' % (t, st), {'text': t, 'world': cmd_world})
    for t in ['\u00e9\u00e8 hue 5', 'set "\u4e2d\u6587"', 'define \u03c0 3', '\u0661\u0662:\u0663\u0660', 'print "\U0001F4A1"', 'hue \u00b2', 'x\u00a0y', '\ufeffhue 1']:
        o = observe(t)
        ctx.count()
        if 'raises' in o:
            ctx.counterexample('C06/compiler-raises-on-non-ascii', 'compiling %r raises %s' % (t, o['raises']), {'text': t})
    ctx.extra['distribution'] = dist
    ctx.stage('implementation')
    # ---- (ii) parser model
    if ctx.model_runnable:
        idx = [i for i, (k, t) in enumerate(texts) if all(ord(c) < 128 for c in t) and 'raises' not in obs[i]]
        bodies = ['Eval vm_compute in (parse_case %s).\n' % coq_str(texts[i][1]) for i in idx]
        packed = [''.join(bodies[k:k + 50]) for k in range(0, len(bodies), 50)]
        res = common.run_cases('c06', 'From Bardolph Require Import Run.ParseShow.', packed)
        out = []
        failed = False
        for ok, strs, log in res:
            if not ok:
                ctx.broken_tie('correspondence', 'parser model evaluation failed', log[-800:])
                failed = True
                break
            out += strs
        unm = {}
        agree = 0
        if not failed:
            nbad = 0
            for i, m in zip(idx, out):
                if m.startswith('U#') or m.startswith('F#'):
                    unm[m[2:]] = unm.get(m[2:], 0) + 1
                    continue
                if m != obs[i]['key']:
                    nbad += 1
                    if nbad <= 4:
                        ctx.broken_tie('correspondence', 'Parser.parse vs parser model', {'text': texts[i][1][:400], 'implementation': obs[i]['key'][:200], 'model': m[:200]})
                else:
                    agree += 1
        ctx.extra['model_agree'] = agree
        ctx.extra['unmodelled'] = unm
    ctx.stage('parser-model')
    # ---- (iii) accepted scripts are executable
    acc = [i for i in range(len(texts)) if obs[i].get('ok')]
    if ctx.model_runnable and acc:
        bodies = ['Eval vm_compute in (wf_case %s).\n' % lang.coq_program(obs[i]['program']) for i in acc]
        packed = [''.join(bodies[k:k + 40]) for k in range(0, len(bodies), 40)]
        res = common.run_cases('c06wf', 'From Bardolph Require Import Run.WfShow Lang.Instr Gen.Codes.', packed)
        out = []
        for ok, strs, log in res:
            if not ok:
                ctx.broken_tie('correspondence', 'checker evaluation failed', log[-800:])
                out = None
                break
            out += strs
        if out is not None:
            for i, w in zip(acc, out):
                if w != 'T':
                    ctx.counterexample('C06/accepted-image-not-well-formed', 'the accepted text %r loads to an image that fails the control-flow check' % texts[i][1][:200], {'text': texts[i][1]})
    n_run = 0
    from bardolph.vm.vm_codes import OpCode
    for i in acc:
        if any(inst.op_code is OpCode.PAUSE for inst in obs[i]['program']):
            continue    # `pause` waits for a key press on the controlling terminal: not run here
        world = gen_prog.World.generate(rng) or lang.SMALL_WORLD
        try:
            st, evs = lang.run_program_impl(obs[i]['program'], world, max_steps=3000)
        except Exception as ex:
            ctx.counterexample('C06/run-raises', 'running the accepted text %r raises %s outside Machine.run' % (texts[i][1][:200], type(ex).__name__), {'text': texts[i][1]})
            continue
        n_run += 1
        ctx.count()
        if st == 'ABORT:assert' and 'pushing None' in str(lang.LAST_EXC):
            continue    # a variable read before the script assigned it (on the path taken): the script's error, reported by the machine
        if st == 'ABORT:internal' and power_default_fault():
            ctx.counterexample(POWER_DEFAULT_SIG, 'the accepted text %r stops the machine: Machine._power has no entry for the default operand (KeyError)' % texts[i][1][:200], {'text': texts[i][1], 'world': world})
        elif st in ('ABORT:internal', 'ABORT:assert') or st.startswith('ABORT:other'):
            ctx.counterexample('C06/accepted-script-hits-internal-fault-' + st.split(':', 1)[1],
                               'the accepted text %r stops with an internal fault (%s) when run' % (texts[i][1][:200], st), {'text': texts[i][1], 'world': world})
    ctx.extra['accepted_run'] = n_run
    ctx.sample({'text': texts[0][1][:300], 'outcome': obs[0].get('key', obs[0].get('raises'))[:120]})
    ctx.sample({'text': texts[-1][1][:300], 'outcome': obs[-1].get('key', obs[-1].get('raises', ''))[:120]})
    ctx.stage('executable')


def replay(ctx, payload):
    t = payload['input']['text']
    o = observe(t)
    print(o.get('raises') or o.get('key', '')[:200], '| errors:', o.get('errors', '')[:200])
    return 'raises' not in o
